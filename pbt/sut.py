"""Thin access layer to the code under test."""

import numpy as np

from .core import SutRaised


def solver():
    from bldfm.solver import steady_state_transport_solver

    return steady_state_transport_solver


def S(*args, **kw):
    """Solver call where the contract is 'returns a result': an exception is a
    discrepancy (SutRaised), not a harness error."""
    try:
        return solver()(*args, **kw)
    except Exception as e:  # noqa: BLE001
        raise SutRaised(f"steady_state_transport_solver raised {type(e).__name__}: {e} (kwargs "
                        f"{ {k: (v if np.ndim(v) == 0 else '...') for k, v in kw.items()} })") from e


def as3d(a):
    a = np.asarray(a)
    return a[np.newaxis] if a.ndim == 2 else a


def warm():
    """Compile the numba kernel once (serial variant) so that timing of the
    first generated case is not dominated by JIT."""
    z = np.array([0.1, 1.0, 2.0])
    prof = tuple(np.ones(3) for _ in range(5))
    try:
        solver()(np.ones((2, 2)), z, prof, (10.0, 10.0), 1, modes=(2, 2), halo=0.0, precision="double")
    except Exception:
        pass  # a tree on which even this solve raises is reported by the generated cases, as a violation
