"""Thin access layer to the code under test."""

import numpy as np

from .core import SutRaised


def solver():
    from bldfm.solver import steady_state_transport_solver

    return steady_state_transport_solver


def S(*args, **kw):
    """Solver call where the contract is 'returns a result': an exception is a
    discrepancy (SutRaised), not a harness error."""
    snap = _snapshot(args, kw)
    try:
        res = solver()(*args, **kw)
    except Exception as e:  # noqa: BLE001
        raise SutRaised(f"steady_state_transport_solver raised {type(e).__name__}: {e} (kwargs "
                        f"{ {k: (v if np.ndim(v) == 0 else '...') for k, v in kw.items()} })") from e
    changed = _changed(snap, args, kw)
    if changed:
        raise SutRaised(f"steady_state_transport_solver modified its argument(s) {changed} in place")
    return res


def _arrays(args, kw):
    """(name, array) for every ndarray among the arguments (profiles tuple flattened)."""
    names = ["srf_flx", "z", "profiles", "domain", "levels"]
    items = list(zip(names, args)) + list(kw.items())
    out = []
    for name, v in items:
        if isinstance(v, np.ndarray):
            out.append((name, v))
        elif isinstance(v, (tuple, list)):
            out.extend((f"{name}[{i}]", x) for i, x in enumerate(v) if isinstance(x, np.ndarray))
    return out


def _snapshot(args, kw):
    return [(n, a.copy()) for n, a in _arrays(args, kw)]


def _changed(snap, args, kw):
    now = dict(_arrays(args, kw))
    return [n for n, before in snap if n in now and not (now[n].shape == before.shape and np.array_equal(now[n], before, equal_nan=True))]


def as3d(a):
    a = np.asarray(a)
    return a[np.newaxis] if a.ndim == 2 else a


def warm():
    """Compile the numba kernel once (serial variant) so that timing of the
    first generated case is not dominated by JIT."""
    z = np.array([0.1, 1.0, 2.0])
    prof = tuple(np.ones(3) for _ in range(5))
    try:
        solver()(np.ones((2, 2)), z, prof, (10.0, 10.0), 1, modes=(2, 2), halo=0.0, precision="double")
    except Exception:
        pass  # a tree on which even this solve raises is reported by the generated cases, as a violation
