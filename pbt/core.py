"""Driver shared by all property modules.

A property module (pbt/props/cXX.py) provides

    ID, LEVEL, RULE, ASSUMPTIONS, TOLERANCES (dict, informational)
    BUDGET = {"quick": dict(examples=N, shards=1), "thorough": dict(examples=N, shards=K)}
    strategy(tier)           -> Hypothesis strategy of JSON-able case dicts      (optional)
    check_case(case)         -> Outcome                                            (required)
    enumerate_cases(tier)    -> list of case dicts, enumerated exhaustively       (optional)
    ENUM_EXHAUSTIVE          -> bool: the enumerated list is the whole finite domain
    machine(tier)            -> RuleBasedStateMachine subclass (stateful search)  (optional)
                                its instances call core.record_history(...) in teardown

Every random choice is made by Hypothesis, seeded from VERIF_SEED and the shard
index.  A violation is written as a JSON replay file and reported as
"VIOLATION property=<id> replay=<path>".
"""

import hashlib
import importlib
import json
import multiprocessing
import os
import sys
import time
import traceback
from pathlib import Path

from . import env

VERIF = env.VERIF
MAX_SAMPLES = 5


# --------------------------------------------------------------------------- outcome


class Outcome:
    """Result of evaluating one generated case against the oracle."""

    def __init__(self):
        self.fail = []  # discrepancy strings: non-empty => property violated
        self.labels = []  # classification labels (evidence histogram)
        self.nontrivial = False  # case satisfies the property's stated rule
        self.detail = {}  # numbers worth keeping in a replay file
        self.known = []  # (key, text) of discrepancies listed in KNOWN_FINDINGS

    def bad(self, msg, key=None):
        """Record a discrepancy.  With ``key`` it is matched against the
        known-findings file: a listed key is reported as KNOWN-FINDING and does
        not count as a violation."""
        if key is not None and key in known_keys(self._pid):
            self.known.append((key, msg))
        else:
            self.fail.append(msg)
        return self

    def label(self, *labels):
        self.labels.extend(str(l) for l in labels)
        return self

    _pid = None


class SutRaised(Exception):
    """The code under test raised where the contract says it returns."""


def canon(case):
    return json.dumps(case, sort_keys=True, separators=(",", ":"))


def case_hash(case):
    return hashlib.sha1(canon(case).encode()).hexdigest()[:16]


def abbreviate(obj, maxlen=16):
    """Samples in the evidence file: long numeric lists are shortened."""
    if isinstance(obj, dict):
        return {k: abbreviate(v, maxlen) for k, v in obj.items()}
    if isinstance(obj, list):
        if len(obj) > maxlen and all(not isinstance(x, (dict,)) for x in obj):
            flat = [abbreviate(x, maxlen) for x in obj[:maxlen]]
            return flat + [f"... ({len(obj)} items)"]
        return [abbreviate(x, maxlen) for x in obj]
    return obj


# --------------------------------------------------------------------------- known findings

_known_cache = None


def _load_known():
    global _known_cache
    if _known_cache is None:
        _known_cache = {}
        p = VERIF / "KNOWN_FINDINGS.txt"
        if p.exists():
            for line in p.read_text().splitlines():
                line = line.strip()
                if not line.startswith("known:"):
                    continue  # "fixed:" entries suppress nothing
                fields = dict(
                    tok.split("=", 1) for tok in line.split()[1:3] if "=" in tok
                )
                pid, key = fields.get("property"), fields.get("key")
                if pid and key:
                    text = line.split(None, 3)[3] if len(line.split(None, 3)) > 3 else ""
                    _known_cache.setdefault(pid, {})[key] = text
    return _known_cache


def known_keys(pid):
    return _load_known().get(pid, {})


# --------------------------------------------------------------------------- statistics


class Stats:
    def __init__(self, pid):
        self.pid = pid
        self.evaluations = 0
        self.nontrivial_hashes = set()
        self.labels = {}
        self.samples = []
        self._sample_keys = set()
        self.known_hits = {}
        self.violations = []  # list of dict(case, fail, detail, origin)
        self.extra = {}

    def record(self, case, out):
        self.evaluations += 1
        for l in out.labels:
            self.labels[l] = self.labels.get(l, 0) + 1
        for key, msg in out.known:
            self.known_hits.setdefault(key, msg)
        if out.nontrivial:
            h = case_hash(case)
            if h not in self.nontrivial_hashes:
                self.nontrivial_hashes.add(h)
                lk = tuple(sorted(set(out.labels)))
                if len(self.samples) < MAX_SAMPLES and lk not in self._sample_keys:
                    self._sample_keys.add(lk)
                    self.samples.append(
                        {"case": abbreviate(case), "labels": sorted(set(out.labels))}
                    )

    def to_wire(self):
        return {
            "evaluations": self.evaluations,
            "hashes": sorted(self.nontrivial_hashes),
            "labels": self.labels,
            "samples": self.samples,
            "known_hits": self.known_hits,
            "violations": self.violations,
            "extra": self.extra,
        }

    def merge_wire(self, w):
        self.evaluations += w["evaluations"]
        self.nontrivial_hashes.update(w["hashes"])
        for k, v in w["labels"].items():
            self.labels[k] = self.labels.get(k, 0) + v
        for s in w["samples"]:
            lk = tuple(s["labels"])
            if len(self.samples) < MAX_SAMPLES and lk not in self._sample_keys:
                self._sample_keys.add(lk)
                self.samples.append(s)
        for k, v in w["known_hits"].items():
            self.known_hits.setdefault(k, v)
        self.violations.extend(w["violations"])
        for k, v in w["extra"].items():
            if isinstance(v, (int, float)) and isinstance(self.extra.get(k, 0), (int, float)):
                self.extra[k] = self.extra.get(k, 0) + v
            else:
                self.extra.setdefault(k, v)


# --------------------------------------------------------------------------- running cases


def load_prop(pid):
    mod = importlib.import_module(f"pbt.props.{pid.lower()}")
    Outcome._pid = pid
    return mod


def eval_case(mod, case):
    """check_case with the harness/SUT distinction: SutRaised becomes a
    discrepancy; any other exception is a harness error and propagates."""
    Outcome._pid = mod.ID
    try:
        out = mod.check_case(case)
    except SutRaised as e:
        out = Outcome()
        out.fail.append(f"code under test raised: {e}")
        out.nontrivial = True
    return out


class Falsified(Exception):
    pass


def derive_seed(seed, shard):
    h = hashlib.sha256(f"{seed}:{shard}".encode()).digest()
    return int.from_bytes(h[:8], "big")


def run_hypothesis_shard(pid, tier, seed, shard, examples):
    """One independent Hypothesis run.  Returns Stats wire dict."""
    env.setup()
    env.import_bldfm()
    import hypothesis
    from hypothesis import HealthCheck, Phase, given, settings

    mod = load_prop(pid)
    stats = Stats(pid)
    last_fail = {}
    phases = [Phase.generate, Phase.shrink]
    if getattr(mod, "NO_SHRINK", {}).get(tier):
        phases = [Phase.generate]
    cfg = settings(
        max_examples=examples,
        database=None,
        deadline=None,
        derandomize=False,
        report_multiple_bugs=False,
        suppress_health_check=list(HealthCheck),
        phases=phases,
        print_blob=False,
    )
    s = derive_seed(seed, shard)

    if hasattr(mod, "machine"):
        from hypothesis.stateful import run_state_machine_as_test

        Machine = mod.machine(tier, stats, last_fail)
        ss = getattr(mod, "STEP_COUNT", {}).get(tier, 30)
        cfg = settings(cfg, stateful_step_count=ss)
        try:
            run_state_machine_as_test(hypothesis.seed(s)(Machine), settings=cfg)
        except Falsified:
            pass
        except hypothesis.errors.Flaky:
            if not last_fail:
                raise
    else:
        strat = mod.strategy(tier)

        @hypothesis.seed(s)
        @cfg
        @given(strat)
        def prop(case):
            out = eval_case(mod, case)
            stats.record(case, out)
            if out.fail:
                last_fail["case"] = case
                last_fail["fail"] = out.fail
                last_fail["detail"] = out.detail
                raise Falsified("; ".join(out.fail))

        try:
            prop()
        except Falsified:
            pass
        except hypothesis.errors.Flaky:
            if not last_fail:
                raise
    if last_fail:
        stats.violations.append(
            {
                "case": last_fail["case"],
                "fail": last_fail["fail"],
                "detail": last_fail.get("detail", {}),
                "origin": f"hypothesis shard={shard} derived_seed={s}",
            }
        )
    return stats.to_wire()


def _shard_entry(args):
    pid, tier, seed, shard, examples = args
    try:
        env.setup()
        env.import_bldfm()
        env.quiet_worker_exit()
        return ("ok", run_hypothesis_shard(pid, tier, seed, shard, examples))
    except BaseException:
        return ("error", traceback.format_exc())


def _enum_entry(args):
    pid, chunk = args
    try:
        env.setup()
        env.import_bldfm()
        env.quiet_worker_exit()
        mod = load_prop(pid)
        stats = Stats(pid)
        for case in chunk:
            out = eval_case(mod, case)
            stats.record(case, out)
            if out.fail:
                stats.violations.append(
                    {"case": case, "fail": out.fail, "detail": out.detail, "origin": "enumeration"}
                )
        return ("ok", stats.to_wire())
    except BaseException:
        return ("error", traceback.format_exc())


class HarnessError(Exception):
    pass


class _pool:
    """spawn-context process pool with non-daemonic workers (C14's workers start
    process pools of their own), shut down cleanly on exit."""

    def __init__(self, n):
        from concurrent.futures import ProcessPoolExecutor

        self.ex = ProcessPoolExecutor(max_workers=n, mp_context=multiprocessing.get_context("spawn"))

    def __enter__(self):
        return self

    def imap(self, fn, items):
        return self.ex.map(fn, items)

    def __exit__(self, *exc):
        self.ex.shutdown(wait=True, cancel_futures=exc[0] is not None)
        return False


def write_violation(pid, v):
    body = {
        "property": pid,
        "case": v["case"],
        "discrepancies": v["fail"],
        "detail": v.get("detail", {}),
        "origin": v.get("origin", ""),
        "replay": f"./check {pid} replay <this file>",
    }
    d = VERIF / "out" / "violations" / pid
    d.mkdir(parents=True, exist_ok=True)
    p = d / (case_hash(v["case"]) + ".json")
    p.write_text(json.dumps(body, indent=1, sort_keys=True, default=str))
    return p


def run_replays(mod, stats):
    """Committed regression cases: replays/<ID>/*.json, run without Hypothesis."""
    d = VERIF / "replays" / mod.ID
    n = 0
    if d.is_dir():
        for p in sorted(d.glob("*.json")):
            body = json.loads(p.read_text())
            case = body["case"] if "case" in body else body
            out = eval_case(mod, case)
            stats.record(case, out)
            n += 1
            if out.fail:
                stats.violations.append(
                    {"case": case, "fail": out.fail, "detail": out.detail, "origin": f"replay {p.name}", "path": str(p)}
                )
    return n


def confirm(mod, v, tries=2):
    """Re-run a reported failing case outside Hypothesis.  A failure that does
    not reproduce is inconclusive, not a violation."""
    if getattr(mod, "NO_CONFIRM", False):
        return True
    for _ in range(tries):
        out = eval_case(mod, v["case"])
        if out.fail:
            return True
    if getattr(mod, "CONFIRM_FRESH_PROCESS", False):
        # the property is about state that outlives a call: this process has already been through the failing
        # history once, so the reproduction that counts is the one from a fresh interpreter
        import subprocess

        d = VERIF / "out" / "confirm"
        d.mkdir(parents=True, exist_ok=True)
        path = d / f"{mod.ID}-{case_hash(v['case'])}.json"
        path.write_text(json.dumps({"case": v["case"]}, default=str))
        # (up to three fresh interpreters: a change that makes results depend on something measured at run time - an FFT
        #  plan chosen by timing, say - fails in some processes and not in others; one observed failure of the replayed
        #  history in a fresh process is a real observation, and on deterministic code all three attempts agree)
        try:
            for _ in range(3):
                r = subprocess.run([sys.executable, str(VERIF / "pbt" / "run.py"), mod.ID, "replay", str(path)],
                                   capture_output=True, text=True, cwd=str(VERIF))
                if r.returncode == 1 and "VIOLATION property=" in r.stdout:
                    return True
        finally:
            path.unlink(missing_ok=True)
    return False


def run_check(pid, tier, seed):
    t0 = time.time()
    digest = env.setup()
    env.import_bldfm()
    mod = load_prop(pid)
    budget = mod.BUDGET[tier]
    stats = Stats(pid)
    inconclusive = []

    if hasattr(mod, "warmup"):
        mod.warmup()

    n_replays = run_replays(mod, stats)

    exhaustive = False
    n_enum = 0
    if hasattr(mod, "enumerate_cases"):
        cases = list(mod.enumerate_cases(tier))
        n_enum = len(cases)
        exhaustive = bool(getattr(mod, "ENUM_EXHAUSTIVE", False))
        procs = budget.get("enum_procs", 1)
        if procs <= 1:
            for case in cases:
                out = eval_case(mod, case)
                stats.record(case, out)
                if out.fail:
                    stats.violations.append(
                        {"case": case, "fail": out.fail, "detail": out.detail, "origin": "enumeration"}
                    )
        else:
            k = max(1, len(cases) // (procs * 4))
            chunks = [cases[i : i + k] for i in range(0, len(cases), k)]
            with _pool(procs) as pool:
                for status, w in pool.imap(_enum_entry, [(pid, c) for c in chunks]):
                    if status != "ok":
                        raise HarnessError(w)
                    stats.merge_wire(w)

    shards = budget.get("shards", 1)
    examples = budget.get("examples", 0)
    has_search = examples > 0 and (hasattr(mod, "strategy") or hasattr(mod, "machine"))
    if has_search:
        if shards == 1:
            w = run_hypothesis_shard(pid, tier, seed, 0, examples)
            stats.merge_wire(w)
        else:
            procs = budget.get("procs", shards)
            with _pool(min(procs, shards)) as pool:
                for status, w in pool.imap(
                    _shard_entry, [(pid, tier, seed, i, examples) for i in range(shards)]
                ):
                    if status != "ok":
                        raise HarnessError(w)
                    stats.merge_wire(w)

    # known findings: one line each, never a violation
    for key, msg in sorted(stats.known_hits.items()):
        print(f"KNOWN-FINDING: property={pid} key={key} {msg}")

    # confirm + write violations (first in deterministic order wins the headline)
    confirmed = []
    for v in stats.violations:
        if v["origin"].startswith("hypothesis") and not confirm(mod, v):
            inconclusive.append(v)
            continue
        confirmed.append(v)
    paths = []
    for v in confirmed:
        p = v.get("path") or str(write_violation(pid, v))
        paths.append(p)

    wall = time.time() - t0
    coverage = {
        "evaluations": stats.evaluations,
        "distinct_nontrivial": len(stats.nontrivial_hashes),
        "rule": mod.RULE,
        "samples": stats.samples,
        "labels": dict(sorted(stats.labels.items())),
        "replay_files_run": n_replays,
        "enumerated_cases": n_enum,
        "exhaustive": exhaustive,
        "hypothesis_shards": shards if has_search else 0,
        "hypothesis_examples_per_shard": examples if has_search else 0,
        "tolerances": getattr(mod, "TOLERANCES", {}),
        "known_findings_hit": sorted(stats.known_hits),
        "source_digest": digest,
        "code_under_test": str(env.SRC),
    }
    coverage.update(stats.extra)
    evidence = {
        "property_id": pid,
        "tier": tier,
        "seed": seed,
        "level": mod.LEVEL,
        "coverage": coverage,
        "assumptions": list(getattr(mod, "ASSUMPTIONS", [])),
        "wall_s": round(wall, 2),
        "violations": len(confirmed),
    }
    # runs against a scratch copy (BLDFM_VERIF_REPO, sensitivity protocol) must not overwrite the evidence of /repo
    evdir = VERIF / "evidence" if "BLDFM_VERIF_REPO" not in os.environ else VERIF / "out" / "evidence-scratch"
    ev = evdir / f"{pid}.json"
    ev.parent.mkdir(parents=True, exist_ok=True)
    ev.write_text(json.dumps(evidence, indent=1, default=str) + "\n")

    print(
        f"{pid} {tier} seed={seed}: evaluations={stats.evaluations} "
        f"distinct_nontrivial={len(stats.nontrivial_hashes)} replays={n_replays} "
        f"enumerated={n_enum} violations={len(confirmed)} wall={wall:.1f}s"
    )
    if confirmed:
        for v, p in zip(confirmed[:10], paths[:10]):
            for f in v["fail"][:4]:
                print(f"  discrepancy: {f}")
        print(f"VIOLATION property={pid} replay={paths[0]}")
        return 1
    if inconclusive:
        print(f"INCONCLUSIVE property={pid}: a reported failure did not reproduce outside Hypothesis")
        for v in inconclusive[:3]:
            print("  ", v["fail"][:2], canon(v["case"])[:400])
        return 2
    return 0


def run_replay(pid, path):
    env.setup()
    env.import_bldfm()
    mod = load_prop(pid)
    if hasattr(mod, "warmup"):
        mod.warmup()
    body = json.loads(Path(path).read_text())
    case = body["case"] if "case" in body else body
    out = eval_case(mod, case)
    for key, msg in out.known:
        print(f"KNOWN-FINDING: property={pid} key={key} {msg}")
    if out.fail:
        for f in out.fail:
            print("  discrepancy:", f)
        print(f"VIOLATION property={pid} replay={path}")
        return 1
    print(f"{pid} replay {path}: held (labels={sorted(set(out.labels))}, nontrivial={out.nontrivial})")
    return 0
