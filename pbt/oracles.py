"""Independent reference implementations (NumPy/SciPy only; nothing imported
from the code under test)."""

import math

import numpy as np

# ------------------------------------------------------------------ retained wavenumbers


def freq_index(n):
    return np.fft.fftfreq(n, 1.0 / n).round().astype(int)


def retained(n_full, n_modes):
    """Mask over fftfreq integer indices of an axis of n_full cells kept by a
    truncation to n_modes (even) modes: all if n_modes >= n_full, else
    -n_modes/2 <= k <= n_modes/2 - 1."""
    k = freq_index(n_full)
    if n_modes >= n_full:
        return np.ones(n_full, bool)
    return (k >= -(n_modes // 2)) & (k <= (n_modes - 1) // 2)


def strict_band(n_full, n_modes):
    k = freq_index(n_full)
    return np.abs(k) < min(n_modes, n_full) / 2.0


def effective_modes(modes, nxe, nye, per_axis=False):
    """The documented clamp: if either count exceeds the padded size both are
    set to the padded size (per_axis=True: each axis clamped on its own)."""
    nlx, nly = modes
    if per_axis:
        return min(nlx, nxe), min(nly, nye)
    if nlx > nxe or nly > nye:
        return nxe, nye
    return nlx, nly


# ------------------------------------------------------------------ closed form for constant profiles


def closed_form(q0, z, const, domain, levels, modes, meas_pt, bg, footprint, px, py, tower_cell=None,
                per_axis_clamp=False):
    """Half-space solution for height-independent (u, v, Kx, Ky, Kz), assembled
    through padding by (px, py) cells, truncation, shift and crop by their
    stated meaning.  Returns (conc, flux) with shape (len(levels), ny, nx)."""
    u, v, Kx, Ky, Kz = const
    ny, nx = q0.shape
    xmx, ymx = domain
    dx, dy = xmx / nx, ymx / ny
    nxe, nye = nx + 2 * px, ny + 2 * py
    nlx, nly = effective_modes(modes, nxe, nye, per_axis_clamp)
    levels = np.atleast_1d(levels)
    h = np.asarray(z)[levels] - z[0]
    kx = 2 * np.pi * np.fft.fftfreq(nxe, d=dx)
    ky = 2 * np.pi * np.fft.fftfreq(nye, d=dy)
    KX, KY = np.meshgrid(kx, ky)
    keep = retained(nye, nly)[:, None] & retained(nxe, nlx)[None, :]
    lam = np.sqrt((Kx * KX**2 + Ky * KY**2 + 1j * (u * KX + v * KY)) / Kz + 0j)
    lam[0, 0] = 1.0

    def forward(src_e, bgval):
        F = np.fft.fft2(src_e) * keep
        oc, oq = [], []
        for hh in h:
            Fq = F * np.exp(-lam * hh)
            Fc = Fq / (Kz * lam)
            Fq[0, 0] = F[0, 0]
            Fc[0, 0] = bgval * nxe * nye - F[0, 0] * hh / Kz
            oq.append(np.fft.ifft2(Fq).real)
            oc.append(np.fft.ifft2(Fc).real)
        return np.array(oc), np.array(oq)

    if not footprint:
        c, q = forward(np.pad(q0, ((py, py), (px, px))), bg)
        xm, ym = meas_pt
        if xm**2 + ym**2 > 0:
            # out(x) = field(x + xm - xmax/2): spectral shift (a roll for on-grid offsets)
            sh = np.exp(1j * (KX * (xm - xmx / 2) + KY * (ym - ymx / 2)))
            c = np.fft.ifft2(np.fft.fft2(c, axes=(1, 2)) * sh, axes=(1, 2)).real
            q = np.fft.ifft2(np.fft.fft2(q, axes=(1, 2)) * sh, axes=(1, 2)).real
    else:
        # response to a unit source in the tower cell, point-reflected about the tower
        if tower_cell is None:
            tower_cell = (int(round(meas_pt[0] / dx)), int(round(meas_pt[1] / dy)))
        im, jm = tower_cell[0] + px, tower_cell[1] + py
        d = np.zeros((nye, nxe))
        d[jm, im] = 1.0
        c, q = forward(d, bg)
        iy = (2 * jm - np.arange(nye)) % nye
        ix = (2 * im - np.arange(nxe)) % nxe
        c = c[:, iy][:, :, ix]
        q = q[:, iy][:, :, ix]
    return c[:, py : py + ny, px : px + nx], q[:, py : py + ny, px : px + nx]


def lowpass(field2d, modes_x, modes_y):
    """Retain the `retained` wavenumber set of a 2-D real field."""
    ny, nx = field2d.shape
    keep = retained(ny, modes_y)[:, None] & retained(nx, modes_x)[None, :]
    return np.fft.ifft2(np.fft.fft2(field2d) * keep).real


# ------------------------------------------------------------------ geodesy (sphere R = 6 371 000 m)

R_EARTH = 6_371_000.0


def destination(lat, lon, bearing_deg, dist):
    """Spherical destination point (degrees); longitude not wrapped."""
    p1, l1, th, d = math.radians(lat), math.radians(lon), math.radians(bearing_deg), dist / R_EARTH
    p2 = math.asin(math.sin(p1) * math.cos(d) + math.cos(p1) * math.sin(d) * math.cos(th))
    l2 = l1 + math.atan2(math.sin(th) * math.sin(d) * math.cos(p1), math.cos(d) - math.sin(p1) * math.sin(p2))
    return math.degrees(p2), math.degrees(l2)


def haversine(lat1, lon1, lat2, lon2):
    p1, p2 = math.radians(lat1), math.radians(lat2)
    dp, dl = p2 - p1, math.radians(lon2 - lon1)
    a = math.sin(dp / 2) ** 2 + math.cos(p1) * math.cos(p2) * math.sin(dl / 2) ** 2
    return 2 * R_EARTH * math.asin(min(1.0, math.sqrt(a)))


def initial_bearing(lat1, lon1, lat2, lon2):
    p1, p2 = math.radians(lat1), math.radians(lat2)
    dl = math.radians(lon2 - lon1)
    y = math.sin(dl) * math.cos(p2)
    x = math.cos(p1) * math.sin(p2) - math.sin(p1) * math.cos(p2) * math.cos(dl)
    return math.degrees(math.atan2(y, x)) % 360.0
