"""Process environment for every check: import root, scratch cwd, numba cache,
silenced logging.  Nothing here is random; nothing is written under /repo."""

import atexit
import hashlib
import logging
import os
import shutil
import sys
import tempfile
import warnings
from pathlib import Path

VERIF = Path(__file__).resolve().parent.parent
REPO = Path(os.environ.get("BLDFM_VERIF_REPO", "/repo")).resolve()
SRC = REPO / "src"

_scratch = None


def source_digest():
    h = hashlib.sha256()
    for p in sorted((SRC / "bldfm").rglob("*.py")):
        h.update(str(p.relative_to(SRC)).encode())
        h.update(p.read_bytes())
    return h.hexdigest()[:16]


def setup(chdir=True):
    """Idempotent.  Must run before ``import bldfm``."""
    global _scratch
    if str(SRC) not in sys.path[:1]:
        sys.path.insert(0, str(SRC))
    os.environ.setdefault("PYTHONHASHSEED", "0")
    cache_root = VERIF / ".cache" / "numba"
    digest = source_digest()
    cdir = cache_root / (hashlib.sha256(str(SRC).encode()).hexdigest()[:8] + "-" + digest)
    if not cdir.exists():
        # keep the cache directory small: drop caches of older source states
        if cache_root.exists():
            old = sorted(cache_root.iterdir(), key=lambda p: p.stat().st_mtime)
            for p in old[:-3]:
                shutil.rmtree(p, ignore_errors=True)
        cdir.mkdir(parents=True, exist_ok=True)
    os.environ["NUMBA_CACHE_DIR"] = str(cdir)
    os.environ.setdefault("MPLBACKEND", "Agg")
    os.environ.setdefault("MPLCONFIGDIR", str(VERIF / ".cache" / "mpl"))
    logging.disable(logging.CRITICAL)
    warnings.simplefilter("ignore")
    if chdir and _scratch is None:
        _scratch = tempfile.mkdtemp(prefix="bldfm-verif-")
        os.chdir(_scratch)
        atexit.register(cleanup)
    return digest


def scratch():
    return Path(_scratch) if _scratch else Path.cwd()


def cleanup():
    global _scratch
    if _scratch:
        try:
            os.chdir("/")
        except OSError:
            pass
        shutil.rmtree(_scratch, ignore_errors=True)
        _scratch = None


def import_bldfm():
    """Import the code under test and verify it comes from the chosen root."""
    import bldfm  # noqa

    logging.disable(logging.CRITICAL)
    quiet_worker_exit()  # before any FFT manager exists; inherited by forked children
    got = Path(bldfm.__file__).resolve()
    if SRC not in got.parents:
        raise RuntimeError(f"bldfm imported from {got}, expected under {SRC}")
    return bldfm


def reset_globals():
    """Bring BLDFM's process-global state to its defaults."""
    from bldfm import config
    from bldfm import fft_manager

    config.NUM_THREADS = 1
    config.MAX_WORKERS = 1
    config.USE_CACHE = False
    fft_manager.reset_fft_manager()


def hard_exit(code):
    """Flush, remove scratch, and leave without running BLDFM's atexit hooks
    (the FFT manager writes fftw_wisdom.pkl into the cwd and may try to start
    threads during interpreter shutdown)."""
    try:
        sys.stdout.flush()
        sys.stderr.flush()
    finally:
        cleanup()
        os._exit(code)


def quiet_worker_exit():
    """Processes that leave through the normal interpreter shutdown (pool workers, and the
    children forked by BLDFM's own process pools) run the
    FFT manager's atexit hook (save wisdom, re-create the pyfftw cache thread)
    fails noisily ("can't create new thread at interpreter shutdown").  In
    worker processes only, make that shutdown hook a no-op; solves are not
    affected.  Must be called before the first solve of the process."""
    from bldfm import fft_manager

    fft_manager.FFTManager._cleanup = lambda self: None
