"""CLI:  run.py <ID> quick|thorough   |   run.py <ID> replay <file>"""

import os
import sys
import traceback
from pathlib import Path

sys.path.insert(0, str(Path(__file__).resolve().parent.parent))

from pbt import core, env  # noqa: E402


def main(argv):
    if len(argv) < 2:
        print(__doc__)
        return 2
    pid = argv[1].upper()
    mode = argv[2] if len(argv) > 2 else os.environ.get("VERIF_TIER", "quick")
    seed = int(os.environ.get("VERIF_SEED", "1") or "1")
    try:
        if mode == "replay":
            return core.run_replay(pid, os.path.abspath(argv[3]))
        if mode not in ("quick", "thorough"):
            print(f"unknown tier {mode!r}")
            return 2
        return core.run_check(pid, mode, seed)
    except BaseException:
        print(f"HARNESS-ERROR property={pid} (exit 2, not a violation)")
        traceback.print_exc()
        return 2


if __name__ == "__main__":
    code = main(sys.argv)
    env.hard_exit(code)
