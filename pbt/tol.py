"""Rounding model of the shooting method and comparison helpers.

The linear-shooting sweep amplifies rounding by G = exp(sum_i Re(lambda_i) dz_i)
of the highest retained horizontal mode (measured: residuals of exact
identities at the top level ~ 30*eps*G of the field maximum, 1e-15 at the
surface).  Generators for exact-identity properties keep log G <= GMAX_LOG by
construction; comparisons use  |a-b| <= (ABS + K*eps*G) * scale.
"""

import numpy as np

EPS = np.finfo(float).eps
GMAX_LOG = 13.8  # G <= 1e6
REL_FLOOR = 1e-12
K_GROWTH = 4096.0  # calibrated: thorough runs (25k cases per property) show residuals up to ~450*eps*G; mutants are >= 1e-4
SINGLE_REL = 1e-5  # a result that went through complex64 storage is involved (the figure C12 states; calibrated: reciprocity residual in single precision <= 2.5e-7 of the scale over 2637 cases with growth up to e^13.8)


def max_wavenumbers(nx, ny, dx, dy, px=0, py=0, modes=None):
    """Largest |kx|, |ky| among the retained modes of the padded grid."""
    nxe, nye = nx + 2 * px, ny + 2 * py
    nlx, nly = (nxe, nye) if modes is None else modes
    if nlx > nxe or nly > nye:
        nlx, nly = nxe, nye
    kx = 2 * np.pi / dx / nxe * (nlx // 2)
    ky = 2 * np.pi / dy / nye * (nly // 2)
    return kx, ky


def log_growth(z, profiles, kx, ky):
    """max over the four sign combinations of  sum_i Re sqrt(-T_i/Kz_i) dz_i ."""
    u, v, Kx, Ky, Kz = [np.asarray(a, float) for a in profiles]
    z = np.asarray(z, float)
    dz = np.diff(z)
    best = 0.0
    for sx in (1.0, -1.0):
        for sy in (1.0, 0.0, -1.0):
            for fx in (1.0, 0.0):
                lx, ly = sx * fx * kx, sy * ky
                if lx == 0 and ly == 0:
                    continue
                lam = np.sqrt((Kx * lx**2 + Ky * ly**2 + 1j * (u * lx + v * ly)) / Kz + 0j)
                best = max(best, float(np.sum(lam.real[:-1] * dz)))
    return best


def rel_tol(logG, single=False):
    t = REL_FLOOR + K_GROWTH * EPS * float(np.exp(min(logG, 40.0)))
    if single:
        t = max(t, SINGLE_REL)
    return t


def maxabs(a):
    a = np.asarray(a)
    return float(np.max(np.abs(a))) if a.size else 0.0


def close(a, b, rel, scale=None, floor=0.0):
    """max|a-b| <= rel*scale (+floor);  returns (ok, err, bound)."""
    a = np.asarray(a, float)
    b = np.asarray(b, float)
    if a.shape != b.shape:
        return False, float("inf"), 0.0
    if scale is None:
        scale = max(maxabs(a), maxabs(b))
    err = maxabs(a - b)
    bound = rel * scale + floor
    return bool(err <= bound), err, bound


def natural_scales(q0, z, profiles, bg=0.0):
    """Magnitudes that the inputs themselves set for the outputs of a dispersion
    run: flux ~ max|q0|, conc ~ |bg| + max|q0| * (total resistance of the column).
    Used as a floor for comparison scales: a source that the mode truncation
    annihilates leaves fields of pure rounding noise (1e-17), and a tolerance
    relative to *their* maximum would be meaningless."""
    Kz = np.asarray(profiles[4], float)
    dz = np.diff(np.asarray(z, float))
    R = float(np.sum(dz * (0.5 / Kz[:-1] + 0.5 / Kz[1:])))
    fs = maxabs(q0)
    return fs, abs(float(bg)) + fs * R
