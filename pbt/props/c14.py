"""C14 - timeseries, multi-tower and parallel drivers equal the individual single runs,
for every strategy, worker count, completion order, parent thread setting and cache switch."""

import os
import shutil
import signal
import time

import numpy as np
from hypothesis import strategies as st

from .. import env, gen, sut
from ..core import Outcome

ID = "C14"
LEVEL = "exploration"
RULE = (
    "Hypothesis draws towers 1..3 x steps 1..4 (1x1 included) with per-step met values (repeated conditions allowed; all forcing fields as lists, or only one or two of them with the rest scalar), footprint or "
    "dispersion, optional user time labels whose sort order differs from the series order (newest first, unpadded hours, day-first dates, descending integers), halo default / 0 / explicit, precision, a parallel strategy in {towers, time, both}, max_workers 1..5, parent "
    "NUM_THREADS in {1, 4}, use_cache on/off, an optional user-supplied surface flux for the serial drivers, the configured ideal source (shape, off-centre location), tower coordinates corrected by hand on the built configuration in a third of the cases, and a delay table (tower, step) -> {0, 20, 60, 120} ms. Schedule control: "
    "bldfm.interface.run_bldfm_single is wrapped before the pool forks so that every worker sleeps its drawn delay first - the "
    "completion order is a function of the drawn table. Oracle: reference single runs computed serially with one thread and no "
    "cache; run_bldfm_timeseries (per tower), run_bldfm_multitower and run_bldfm_parallel must return tower names in configuration "
    "order, lists in time order, equal metadata (tower name, coordinates, timestamp, params) and fields within 1e-12 of the "
    "reference maximum (bit-identity is counted, and required of the serial drivers when the parent runs with the reference's single thread); any exception from a driver is a violation. Non-trivial = towers*steps >= 2, "
    ">= 2 workers and a delay table in which an earlier-submitted task sleeps longer than a later one; distinct = canonical JSON."
)
ASSUMPTIONS = [
    "process completion order is owned through injected delays; thread interleavings inside a worker are not",
    "ProcessPoolExecutor forks (Linux default), so the wrapper installed in the parent is inherited by the workers",
    "a driver that does not return within 180 s makes the run inconclusive (exit 2), not a violation",
]
TOLERANCES = {"fields": "1e-12 * max|reference| (double), 1e-6 (single)", "metadata": "exact"}
BUDGET = {"quick": dict(examples=90, shards=1), "thorough": dict(examples=60, shards=8, procs=8)}
NO_SHRINK = {"quick": True}
# a wrong result that a driver returned once under a drawn schedule is a violation even if the same schedule does not
# reproduce it (completion order of real processes is only steered, not forced, by the injected delays)
NO_CONFIRM = True


def warmup():
    sut.warm()


@st.composite
def _case(draw):
    import itertools

    # shape, strategy and worker count likewise from one draw over their cross product
    ntow, nt, strat_, workers_ = draw(st.sampled_from(list(itertools.product(
        [2, 3, 1, 3, 2], [2, 3, 4, 1, 2], ["towers", "time", "both"], [2, 3, 5, 1, 4]))))
    pool = [[0.35, -120.0, 3.0, 200.0], [0.45, 80.0, 4.5, 75.0], [0.3, -60.0, 2.5, 310.0], [0.5, 1e9, 6.0, 135.0]]
    idx = draw(st.lists(st.integers(0, 3), min_size=nt, max_size=nt))
    met = [pool[i] for i in idx]
    # the four switches that select code paths jointly (mode, precision, cache, parent thread setting) come from ONE draw over
    # their cross product: independent draws leave the rarer corners (single precision + cache + footprint + one thread)
    # nearly unvisited in 90 examples
    import itertools

    fp_, prec_, cache_, pth_ = draw(st.sampled_from(list(itertools.product([True, True, False], ["double", "single"], [True, False], [1, 4]))))
    # halo setting and domain shape in one draw as well: the default halo is max(xmax, ymax), so it is the taller-than-wide
    # domain that tells a default resolved from one extent only
    halo_, tall_ = draw(st.sampled_from([("default", False), ("default", True), ("default", True), ("zero", False),
                                         ("explicit", False), ("explicit", True)]))
    return {
        "ntow": ntow, "nt": nt, "met": met, "footprint": fp_, "tall": tall_,
        "halo": halo_, "precision": prec_,
        "strategy": strat_, "workers": workers_,
        "parent_threads": pth_, "use_cache": cache_,
        # user labels; their sort order has nothing to do with the series order (newest first, unpadded hours,
        # day-first dates across New Year, descending integers)
        "timestamps": draw(st.sampled_from([False, "iso", "newest-first", "unpadded", "day-first", "int-desc"])),
        # which forcing fields are per-step lists (the others are scalars shared by all steps): a wind-direction
        # sweep or a stability sweep at otherwise fixed forcing is a series too
        "vary": draw(st.sampled_from(["all", "all", "wind_dir", "mol", "wind_speed+wind_dir", "ustar"])),
        "user_flux": draw(st.sampled_from([False, False, True])),
        "nudged": draw(st.sampled_from([False, False, True])),
        "aligned": draw(st.sampled_from([False, False, True])),
        "levels_desc": draw(st.sampled_from([False, False, True])),
        "modes_kind": draw(st.sampled_from(["fit", "fit", "x-above", "y-above"])),
        "src_loc": draw(st.sampled_from([None, [30.0, 110.0], [125.0, 40.0]])),  # ideal source off the domain centre
        "flux_shape": draw(st.sampled_from(["diamond", "circle", "point"])),
        "delays": [[draw(st.sampled_from([120, 0, 60, 20, 0])) for _ in range(nt)] for _ in range(ntow)],
    }


def strategy(tier):
    return _case()


def _config(case):
    from bldfm.config_parser import parse_config_dict

    nt = case["nt"]
    met = {"ustar": [m[0] for m in case["met"]], "mol": [m[1] for m in case["met"]],
           "wind_speed": [m[2] for m in case["met"]], "wind_dir": [m[3] for m in case["met"]]}
    if nt == 1 and case["delays"][0][0] % 40 == 0:  # scalars now and then
        met = {k: v[0] for k, v in met.items()}
    elif case.get("vary", "all") != "all":
        lists = case["vary"].split("+")
        met = {k: (v if k in lists else v[0]) for k, v in met.items()}
    if case["timestamps"] and isinstance(met["ustar"], list):
        style = case["timestamps"]
        met["timestamps"] = {
            "newest-first": [f"2024-06-01T{23 - h:02d}:00" for h in range(nt)],
            "unpadded": ["9:30", "10:00", "10:30", "8:00"][:nt],
            "day-first": ["31.12.2023", "01.01.2024", "02.01.2024", "30.12.2023"][:nt],
            "int-desc": [40, 30, 20, 10][:nt],
        }.get(style, [f"2024-06-01T{h:02d}:00" for h in range(nt)])  # True (older replay files) / "iso"
    dom = {"nx": 8, "ny": 6, "xmax": 160.0, "ymax": 150.0, "nz": 4, "modes": [8, 6], "ref_lat": 48.0, "ref_lon": 11.0}
    if case.get("tall"):
        dom.update(ny=8, ymax=200.0)  # same 20 m x 25 m cells, now taller than wide
    if case.get("modes_kind", "fit") != "fit":
        # one count far above the padded grid, the other below it: the solver then keeps all modes on both axes
        dom["modes"] = [64, 4] if case["modes_kind"] == "x-above" else [4, 64]
    if case.get("levels_desc"):
        dom["output_levels"] = [3, 1]  # two output levels, upper one first
    if case["halo"] == "zero":
        dom["halo"] = 0.0
    elif case["halo"] == "explicit":
        dom["halo"] = 45.0
    R = 6_371_000.0
    towers = []
    for k in range(case["ntow"]):
        x, y = 40.0 + 30.0 * k, 50.0 + 20.0 * k
        zm = 3.0 + k
        if case.get("aligned"):
            # same height, whole cells apart (cells are 20 m x 25 m): every tower still gets its own solve
            x, y, zm = 40.0 + 40.0 * k, 50.0 + 25.0 * k, 3.0
        towers.append({"name": ["north", "alpha", "mid"][k], "z_m": zm,
                       "lat": 48.0 + np.degrees(y / R), "lon": 11.0 + np.degrees(x / (R * np.cos(np.radians(48.0))))})
    cfg = parse_config_dict({
        "domain": dom, "towers": towers, "met": met,
        "solver": dict({"closure": "MOST", "footprint": case["footprint"], "precision": case["precision"],
                        "surface_flux_shape": case.get("flux_shape", "diamond")},
                       **({"src_loc": case["src_loc"]} if case.get("src_loc") else {})),
        "parallel": {"use_cache": case["use_cache"], "max_workers": case["workers"]},
    })
    if case.get("aligned"):
        # ... with their surveyed local coordinates entered exactly (lat/lon placement leaves them 1e-11 m off the nodes)
        for k, t in enumerate(cfg.towers):
            t.x, t.y = 40.0 + 40.0 * k, 50.0 + 25.0 * k
    elif case.get("nudged"):
        # local coordinates corrected by hand after the configuration was built (surveyed positions): the object the
        # drivers are given says where the towers are, whatever its lat/lon fields would give
        for k, t in enumerate(cfg.towers):
            t.x, t.y = t.x + 2.5 + k, t.y - 3.0
    return cfg


class _Timeout(Exception):
    pass


def _alarm(signum, frame):
    raise _Timeout()


def check_case(case):
    import bldfm.interface as iface
    from bldfm import config as rt

    import copy

    out = Outcome()
    cfg = _config(case)
    cfg_before = copy.deepcopy(cfg)
    ntow, nt = case["ntow"], case["nt"]
    names = [t.name for t in cfg.towers]
    out.label("strategy=" + case["strategy"], f"workers={case['workers']}", f"parent-threads={case['parent_threads']}",
              "cache-on" if case["use_cache"] else "cache-off", "footprint" if case["footprint"] else "dispersion",
              f"shape={ntow}x{nt}", "halo=" + case["halo"], "domain=" + ("tall" if case.get("tall") else "wide"))
    shutil.rmtree(".bldfm_cache", ignore_errors=True)

    # ---- reference: serial, one thread, no cache, no delays
    env.reset_globals()
    ref = {t.name: [iface.run_bldfm_single(cfg, t, met_index=i) for i in range(nt)] for t in cfg.towers}
    flux = None
    if case.get("user_flux"):
        # a user-supplied source is handed on by the serial drivers (the parallel driver documents that it ignores it)
        jj, ii = np.meshgrid(np.arange(6), np.arange(8), indexing="ij")
        flux = np.sin(0.7 * ii) + 0.3 * jj
        ref_flux = {t.name: [iface.run_bldfm_single(cfg, t, met_index=i, surface_flux=flux) for i in range(nt)] for t in cfg.towers}
        out.label("user-flux")
    rel = 1e-12 if case["precision"] == "double" else 1e-6
    bit = [True]

    def compare(driver, res, ref=ref, exact=False):
        if list(res.keys()) != names:
            out.bad(f"{driver}: tower keys {list(res.keys())} are not the configured towers in order {names}")
            return
        for name in names:
            if len(res[name]) != nt:
                out.bad(f"{driver}: tower {name!r} has {len(res[name])} results, expected {nt}")
                continue
            for i, (r, e) in enumerate(zip(res[name], ref[name])):
                if r["tower_name"] != name or tuple(r["tower_xy"]) != tuple(e["tower_xy"]):
                    out.bad(f"{driver}: result [{name!r}][{i}] carries tower {r['tower_name']!r} {r['tower_xy']}")
                if r["timestamp"] != e["timestamp"] or r["params"] != e["params"]:
                    out.bad(f"{driver}: result [{name!r}][{i}] carries timestamp {r['timestamp']!r} / params {r['params']}, "
                            f"expected {e['timestamp']!r} / {e['params']}")
                for fld in ("conc", "flx"):
                    a, b = np.asarray(r[fld]), np.asarray(e[fld])
                    if a.shape != b.shape or a.dtype != b.dtype:
                        out.bad(f"{driver}: [{name!r}][{i}] {fld} has shape/dtype {a.shape}/{a.dtype}, single run {b.shape}/{b.dtype}")
                        continue
                    if not np.array_equal(a, b):
                        bit[0] = False
                        err = float(np.abs(a.astype(float) - b.astype(float)).max())
                        if exact:
                            out.bad(f"{driver}: [{name!r}][{i}] {fld} is not bit-identical to the single run made in this process "
                                    f"with the same thread setting (max diff {err:.3e}, {err / max(float(np.abs(b).max()), 1e-300):.1e} "
                                    f"of the maximum; cache {'on' if case['use_cache'] else 'off'}, precision {case['precision']})")
                        elif not err <= rel * float(np.abs(b).max()):
                            out.bad(f"{driver}: [{name!r}][{i}] {fld} differs from the single run for that tower and step by {err:.3e}")
                for ga, gb in zip(r["grid"], e["grid"]):
                    if not np.array_equal(ga, gb):
                        out.bad(f"{driver}: [{name!r}][{i}] grid differs from the single run")

    # ---- install the schedule
    delays = {(names[k], i): case["delays"][k][i] / 1000.0 for k in range(ntow) for i in range(nt)}
    orig = iface.run_bldfm_single

    def delayed(config, tower, met_index=0, surface_flux=None, cache=None):
        time.sleep(delays.get((tower.name, met_index), 0.0))
        return orig(config, tower, met_index=met_index, surface_flux=surface_flux, cache=cache)

    old_handler = signal.signal(signal.SIGALRM, _alarm)
    try:
        rt.NUM_THREADS = case["parent_threads"]
        # serial drivers (no delays needed): they run in this process with the parent's thread setting
        for driver, call in (
            ("run_bldfm_timeseries", lambda: {t.name: iface.run_bldfm_timeseries(cfg, t) for t in cfg.towers}),
            ("run_bldfm_multitower", lambda: iface.run_bldfm_multitower(cfg)),
        ):
            signal.alarm(180)
            try:
                res = call()
            except _Timeout:
                raise RuntimeError(f"{driver} did not return within 180 s (inconclusive)")
            except Exception as e:
                out.bad(f"{driver} raised {type(e).__name__}: {e}")
                continue
            finally:
                signal.alarm(0)
            # serial drivers work in this process: with the reference's thread setting they repeat its very solves (or
            # read them back from the cache), so the fields are the same bits
            compare(driver, res, exact=case["parent_threads"] == 1)
        if flux is not None:
            try:
                compare("run_bldfm_timeseries(surface_flux)", {t.name: iface.run_bldfm_timeseries(cfg, t, surface_flux=flux) for t in cfg.towers}, ref_flux)
                compare("run_bldfm_multitower(surface_flux)", iface.run_bldfm_multitower(cfg, surface_flux=flux), ref_flux)
            except Exception as e:
                out.bad(f"serial driver with a user-supplied surface flux raised {type(e).__name__}: {e}")
        # a second pass with the cache now populated (hits instead of solves)
        if case["use_cache"] and case["footprint"]:
            try:
                compare("run_bldfm_multitower (cache populated)", iface.run_bldfm_multitower(cfg), exact=case["parent_threads"] == 1)
            except Exception as e:
                out.bad(f"run_bldfm_multitower with a populated cache raised {type(e).__name__}: {e}")
        # a parallel run that is handed a user flux first (documented: the parallel driver ignores it, with a warning):
        # nothing of it may linger in the driver for the run that follows
        if flux is not None:
            try:
                compare("run_bldfm_parallel(surface_flux=...) [documented to ignore the flux]",
                        iface.run_bldfm_parallel(cfg, max_workers=case["workers"], parallel_over=case["strategy"], surface_flux=flux))
            except Exception as e:
                out.bad(f"run_bldfm_parallel with a user-supplied surface flux raised {type(e).__name__}: {e}")
        # parallel driver under the drawn schedule
        iface.run_bldfm_single = delayed
        signal.alarm(180)
        try:
            res = iface.run_bldfm_parallel(cfg, max_workers=case["workers"], parallel_over=case["strategy"])
            compare(f"run_bldfm_parallel({case['strategy']}, workers={case['workers']})", res)
        except _Timeout:
            raise RuntimeError("run_bldfm_parallel did not return within 180 s (inconclusive)")
        except Exception as e:
            out.bad(f"run_bldfm_parallel({case['strategy']}, workers={case['workers']}, parent threads {case['parent_threads']}) "
                    f"raised {type(e).__name__}: {e}")
        finally:
            signal.alarm(0)
    finally:
        iface.run_bldfm_single = orig
        signal.signal(signal.SIGALRM, old_handler)
        env.reset_globals()
        shutil.rmtree(".bldfm_cache", ignore_errors=True)

    if cfg != cfg_before:
        out.bad("a driver modified the configuration object it was given")
    # submission order of the strategy's tasks and whether the schedule inverts it
    if case["strategy"] == "towers":
        order = [sum(case["delays"][k]) for k in range(ntow)]
    elif case["strategy"] == "time":
        order = None
        inv = any(case["delays"][k][i] > case["delays"][k][j] for k in range(ntow) for i in range(nt) for j in range(i + 1, nt))
    else:
        order = [case["delays"][k][i] for k in range(ntow) for i in range(nt)]
    if order is not None:
        inv = any(order[i] > order[j] for i in range(len(order)) for j in range(i + 1, len(order)))
    out.label("bit-identical" if bit[0] else "rounding-level-differences", "schedule-inverts-order" if inv else "schedule-in-order")
    out.nontrivial = ntow * nt >= 2 and case["workers"] >= 2 and inv
    return out
