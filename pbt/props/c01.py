"""C01 - convergence to the exact advection-diffusion BVP for height-dependent profiles.

Reference model: for each retained Fourier component the admittance Y = q^/c^ obeys
the Riccati equation Y' = T(z) + Y^2/Kz(z); it is integrated with DOP853 (rtol 1e-11)
downward from the decaying constant-coefficient continuation at the top node, which is
independent of the solver's discretisation."""

import math

import numpy as np
from hypothesis import strategies as st
from scipy.integrate import solve_ivp

from .. import gen, sut
from ..core import Outcome

ID = "C01"
LEVEL = "exploration"
KAP = 0.4
RULE = (
    "Hypothesis draws a profile family as functions of z (log-law + MOST psi, power law, log + offset wind, or - one case in eight - wind and Kz exactly constant with only Kx, Ky varying; MOST kappa u* z/phi, "
    "power-law, linear diffusivity; anisotropy factors 2^[-2,2], in half of the cases with a height-dependent ratio (Kx/Kz ~ z^±0.2..0.5, Ky = ay (Kz + offset)); any wind angle; optional linear turning with height), z0 relative "
    "to the column, z_m in [2,20] (column top 2 z_m), a vertical grid kind in {uniform, log-uniform, BLDFM-stretched}, a base "
    "layer count n (multiple of 4, <= 512) chosen so that the relative layer thickness delta = max dz_i/z_i meets a drawn target "
    "(<= 1 in three quarters of the cases, <= 4 otherwise), nx,ny in 4..8, a domain size relative to the column height, an output "
    "level in {surface, 1/4, 1/2, top} and a dense random source. The solver is run at n and 4n layers (halo=0, double) and the "
    "per-mode transfer functions fft2(conc)/fft2(q0), fft2(flux)/fft2(q0) are compared with the Riccati/DOP853 reference of the "
    "continuous BVP. Admitted modes: r = max_i |T|dz_i^2/Kz <= 1 on the coarse grid, sum Re(lambda)dz <= 18 over the column and <= 8 up to the output height; components on the unpaired Nyquist row/column of even grids are compared with the real-part combination (H(k)+conj(H(k')))/2 of the reference, the error measured against the larger of the two parts (the relative rounding error of "
    "the decayed response at height z is ~ eps*exp(2*growth(z))). Assertions: (a) E(n) <= 6*delta(n), E(4n) <= 6*delta(4n), and E(4n) < E(n) unless E(4n) <= delta(4n) (a coarse-grid error can be accidentally small) or both < 1e-6, over all admitted modes; (b) rate "
    "E(4n) <= max(E(n)/2.5, 1e-6) over admitted modes with r <= 0.5 on grids with delta <= 1 and at least 16 layers, unless the error grows more than two-fold while staying below delta(4n) - the signature of a coarse-grid error that is accidentally small - (E = max over the mode set of the "
    "larger of the relative conc- and flux-transfer errors). Non-trivial = >= 2 admitted modes, Kz(top)/Kz(z0) >= 2 and E(n) > 1e-5; "
    "distinct = canonical JSON."
)
ASSUMPTIONS = [
    "the rate (b) is asserted for the combined response on r <= 0.5, delta <= 1 and n >= 16 layers (on 8-layer grids the best-resolved modes can have an accidentally small coarse-grid error: ratio 2.40 seen once in 6452 thorough cases, 3.27 minimum in calibration): a strict subset of the stated regime in which it is a property of the scheme rather than of a lucky coarse grid (calibration in DESIGN.md)",
    "reference accuracy: DOP853 rtol 1e-11 / atol 1e-14",
    "per-mode relative errors are only asserted where the shooting growth up to the output height is <= e^8, i.e. rounding <= ~1e-8 relative (calibration: at growth 17-18 to the top node the relative rounding error reaches 0.4)",
]
TOLERANCES = {"a": "E(n) <= 6*delta(n), E(4n) <= 6*delta(4n); E(4n) < E(n) or E(4n) <= delta(4n) or both < 1e-6 (calibration: E/delta max 2.64, E(4n)/delta(4n) median 0.14, p99 1.13 over 2000 cases)", "b": "E(n)/E(4n) >= 2.5 (r <= 0.5, delta <= 1, n >= 16)"}
BUDGET = {"quick": dict(examples=110, shards=1), "thorough": dict(examples=400, shards=16)}
NO_SHRINK = {"quick": False}
MAX_MODES = 16


def warmup():
    sut.warm()


def _psi(x):
    x = np.asarray(x, float)
    xi = np.where(x > 0, 1.0, np.abs(1 - 16 * np.minimum(x, 0)) ** 0.25)
    return np.where(x > 0, 5 * x, -2 * np.log(0.5 * (1 + xi)) - np.log(0.5 * (1 + xi**2)) + 2 * np.arctan(xi) - 0.5 * np.pi)


def _phi(x):
    x = np.asarray(x, float)
    return np.where(x > 0, 1 + 5 * x, np.abs(1 - 16 * np.minimum(x, 0)) ** -0.5)


def make_profiles(c):
    """(u, v, Kx, Ky, Kz) as vectorised functions of z."""
    z0, us, L = c["z0"], c["ustar"], c["L"]
    fam = c["fam"]
    if fam == "most":
        U = lambda z: us / KAP * (np.log(z / z0) + _psi(z / L)) + 0.3
        K = lambda z: KAP * us * z / _phi(z / L)
    elif fam == "power":
        U = lambda z: 3.0 * (z / 10.0) ** c["m"]
        K = lambda z: 0.3 * z ** c["n"]
    elif fam == "constflow":
        # wind and Kz exactly constant with height, only the horizontal diffusivities vary (through kx_exp / ky_off):
        # a shortcut that takes "u, v, Kz constant" for "the closed form applies" solves another problem
        U = lambda z: 3.0 + 0.0 * z
        K = lambda z: KAP * us * c["zm"] + 0.0 * z
    else:
        U = lambda z: us / KAP * np.log(z / z0) + 0.5
        K = lambda z: KAP * us * z
    ang = lambda z: c["wdir"] + (0.0 if fam == "constflow" else c["turn"]) * z
    # the horizontal diffusivities are not tied to Kz: Kx/Kz follows a weak power of height and Ky has an offset,
    # so neither ratio is constant over the column (nothing in the equation says it is)
    ex, koff, zm = c.get("kx_exp", 0.0), c.get("ky_off", 0.0), c["zm"]
    return (lambda z: U(z) * np.cos(ang(z)), lambda z: U(z) * np.sin(ang(z)),
            lambda z: c["ax"] * K(z) * (z / zm) ** ex, lambda z: c["ay"] * (K(z) + koff * K(zm)), K)


def zgrid(kind, n, z0, ztop, zm):
    if kind == "uniform":
        return np.linspace(z0, ztop, n + 1)
    if kind == "log":
        return z0 * (ztop / z0) ** np.linspace(0, 1, n + 1)
    h = 2 * zm  # BLDFM's stretched coordinate, nodes uniform in zeta
    bb = zm / (np.exp(-z0 / h) - np.exp(-zm / h))
    aa = bb * np.exp(-z0 / h)
    zeta = np.linspace(0, 1, n + 1) * (aa - bb * np.exp(-ztop / h))
    return -h * np.log(-(zeta - aa) / bb)


def _delta(kind, n, z0, ztop, zm):
    z = zgrid(kind, n, z0, ztop, zm)
    return float(np.max(np.diff(z) / z[:-1]))


@st.composite
def _case(draw):
    # one column in four is a tall one (tower at 20..200 m, Kz of 10..100 m2/s): by similarity the discretisation
    # errors are those of the small columns - unless a term of the scheme is dimensionally inconsistent
    zm = draw(gen.logfl(2.0, 20.0)) if draw(st.integers(0, 3)) else draw(gen.logfl(20.0, 200.0))
    ztop = 2 * zm
    gk = draw(st.sampled_from(["uniform", "log", "bldfm"]))
    z0 = ztop / draw(gen.logfl(40.0, 400.0) if gk != "log" else gen.logfl(40.0, 2000.0))
    target = draw(gen.logfl(0.15, 1.0)) if draw(st.integers(0, 3)) else draw(gen.logfl(1.0, 4.0))
    n0 = 8
    while n0 < 512 and _delta(gk, n0, z0, ztop, zm) > target:
        n0 += 4 if n0 < 64 else 16
    c = {
        "fam": draw(st.sampled_from(["most", "power", "loglin"])), "z0": z0, "zm": zm, "grid": gk, "n0": int(n0),
        "ustar": draw(gen.fl(0.15, 0.7)), "L": draw(st.sampled_from([-1.0, 1.0])) * draw(gen.logfl(10.0, 1000.0)),
        "wdir": draw(gen.fl(0.0, 6.28)), "ax": 2.0 ** draw(gen.fl(-2.0, 2.0)), "ay": 2.0 ** draw(gen.fl(-2.0, 2.0)),
        "turn": draw(st.sampled_from([0.0, 0.0, 0.01, -0.02])), "m": draw(gen.fl(0.1, 0.4)), "n": draw(gen.fl(0.5, 1.2)),
        "nx": draw(st.integers(4, 8)), "ny": draw(st.integers(4, 8)),
        "lvl_frac": draw(st.sampled_from([0.0, 0.25, 0.5, 1.0])),
        "kx_exp": draw(st.sampled_from([0.0, 0.0, -0.5, -0.2, 0.2, 0.5])), "ky_off": draw(st.sampled_from([0.0, 0.0, 0.3, 1.0])),
    }
    c["solo"] = draw(st.integers(0, 2)) == 0
    if draw(st.integers(0, 7)) == 0:
        c["fam"] = "constflow"
        c["kx_exp"], c["ky_off"] = draw(st.sampled_from([-0.5, 0.5, 0.2])), draw(st.sampled_from([0.0, 0.3]))
    # horizontally isotropic diffusivity different from Kz, handed over as one array object for Kx and Ky
    if c["fam"] != "constflow" and draw(st.integers(0, 5)) == 0:
        c["ay"], c["kx_exp"], c["ky_off"], c["same_kh"] = c["ax"], 0.0, 0.0, True
    c["xmax"] = float(f"{ztop * c['nx'] * draw(gen.logfl(0.5, 10.0)):.6g}")
    c["ymax"] = float(f"{ztop * c['ny'] * draw(gen.logfl(0.5, 10.0)):.6g}")
    c["q"] = draw(gen.source(c["ny"], c["nx"], kinds=("dense",)))
    return c


def strategy(tier):
    return _case()


def ref_transfer(fn, kx, ky, z0, ztop, zout):
    """(c^/q0^, q^/q0^) of the continuous BVP at height zout for wavenumber (kx, ky)."""
    u, v, Kx, Ky, Kz = fn
    T = lambda z: -(Kx(z) * kx**2 + Ky(z) * ky**2) - 1j * (u(z) * kx + v(z) * ky)
    lam = np.sqrt(-T(ztop) / Kz(ztop) + 0j)
    if lam.real < 0:
        lam = -lam
    Ytop = Kz(ztop) * lam
    sol = solve_ivp(lambda z, Y: T(z) + Y**2 / Kz(z), (ztop, z0), [Ytop + 0j], method="DOP853", rtol=1e-11, atol=1e-14,
                    dense_output=True)
    Y0 = sol.y[0, -1]
    if zout > z0:
        s2 = solve_ivp(lambda z, g: -sol.sol(z)[0] / Kz(z), (z0, zout), [0j], method="DOP853", rtol=1e-11, atol=1e-14)
        lg = s2.y[0, -1]
    else:
        lg = 0j
    c = np.exp(lg) / Y0
    Yout = sol.sol(zout)[0] if zout < ztop else Ytop
    return c, Yout * c


def check_case(c):
    out = Outcome()
    fn = make_profiles(c)
    z0, zm = c["z0"], c["zm"]
    ztop = 2 * zm
    nx, ny, n0, gk = c["nx"], c["ny"], c["n0"], c["grid"]
    dom = (c["xmax"], c["ymax"])
    q = np.asarray(c["q"], float)
    Q = np.fft.fft2(q)
    kxs = 2 * np.pi * np.fft.fftfreq(nx, d=dom[0] / nx)
    kys = 2 * np.pi * np.fft.fftfreq(ny, d=dom[1] / ny)
    zc = zgrid(gk, n0, z0, ztop, zm)
    dzc = np.diff(zc)
    delta = float(np.max(dzc / zc[:-1]))
    out.label("fam=" + c["fam"], "grid=" + gk, "delta<=1" if delta <= 1 else "delta>1", f"level={c['lvl_frac']}")
    if c.get("same_kh"):
        out.label("Kx-is-Ky-object")
    out.label("K-ratios-vary-with-height" if (c.get("kx_exp") or c.get("ky_off")) else "K-ratios-constant")

    # admitted modes on the coarse grid.  A component on the unpaired Nyquist column / row of an even grid is observed
    # through the real part of the field: its transfer function is  (H(k) + conj(H(k')))/2  with k' the wavenumber the
    # solver uses for the mirror partner (the Nyquist index keeps its sign), so it has two "parts".
    zl = zc[:-1]

    def resolved(kx, ky):
        T = -(fn[2](zl) * kx**2 + fn[3](zl) * ky**2) - 1j * (fn[0](zl) * kx + fn[1](zl) * ky)
        Kz = fn[4](zl)
        lam_dz = np.sqrt(-T / Kz).real * dzc
        r_ = float(np.max(np.abs(T) * dzc**2 / Kz))
        g_ = float(np.sum(lam_dz))
        # growth up to the output height: the relative rounding error of the decayed response there is ~ eps*exp(2*g_out)
        g_out_ = float(np.sum(lam_dz[: int(round(c["lvl_frac"] * n0))]))
        return r_, (r_ <= 1.0 and g_ <= 18.0 and g_out_ <= 8.0)

    sel = []
    for j in range(ny):
        for i in range(nx):
            if i == 0 and j == 0:
                continue
            if abs(Q[j, i]) <= 1e-6 * np.abs(Q).max():
                continue
            nyq_x = nx % 2 == 0 and i == nx // 2
            nyq_y = ny % 2 == 0 and j == ny // 2
            parts = [(kxs[i], kys[j])]
            if nyq_x and nyq_y:
                parts.append((kxs[i], kys[j]))
            elif nyq_x:
                parts.append((kxs[i], -kys[j]))
            elif nyq_y:
                parts.append((-kxs[i], kys[j]))
            rs, oks = zip(*(resolved(*p_) for p_ in parts))
            if all(oks):
                sel.append((j, i, max(rs), parts))
    if len(sel) > MAX_MODES:  # deterministic thinning, keeping the best- and the worst-resolved and some Nyquist components
        sel.sort(key=lambda t: t[2])
        idx = np.unique(np.round(np.linspace(0, len(sel) - 1, MAX_MODES)).astype(int))
        keep = [sel[k] for k in idx]
        extra = [t for t in sel if len(t[3]) == 2 and t not in keep][:4]
        sel = keep + extra
    if len(sel) < 1:
        out.label("no-admitted-mode")
        return out

    refs = {}

    def href(kx, ky, zout):
        key = (kx, ky)
        if key not in refs:
            refs[key] = ref_transfer(fn, kx, ky, z0, ztop, zout)
        return refs[key]

    E_all, E_half = [], []
    n_nyq = 0
    delta4 = None

    def errors_at(n):
        nonlocal n_nyq
        z = zgrid(gk, n, z0, ztop, zm)
        dn = float(np.max(np.diff(z) / z[:-1]))
        prof = tuple(f(z) for f in fn)
        if c.get("same_kh"):
            prof = (prof[0], prof[1], prof[2], prof[2], prof[4])
        lvl = int(round(c["lvl_frac"] * n))
        # the level is requested together with two others, in an order whose sorting permutation is a 3-cycle:
        # the slice examined must still be the one at the requested height (the "output heights" clause)
        others = [l for l in (n // 8, (5 * n) // 8, (7 * n) // 8) if l != lvl][:2]
        req = [others[0], lvl, others[1]] if others[0] > lvl else [lvl, others[1], others[0]] if others[1] > lvl else [others[1], others[0], lvl]
        if c.get("solo"):
            req = [lvl]  # the level on its own: the column above it still is the column that was handed over
        _, cc3, ff3 = sut.S(q, z, prof, dom, req, modes=(100, 100), halo=0.0, precision="double")
        cc3, ff3 = sut.as3d(cc3), sut.as3d(ff3)
        cc, ff = cc3[req.index(lvl)], ff3[req.index(lvl)]
        Hc = np.fft.fft2(cc) / Q
        Hq = np.fft.fft2(ff) / Q
        ea = eh = 0.0
        for (j, i, r, parts) in sel:
            if len(parts) == 1:
                cr, qr = href(parts[0][0], parts[0][1], float(z[lvl]))
                cs_, qs_ = abs(cr), abs(qr)
            else:
                c1_, q1_ = href(parts[0][0], parts[0][1], float(z[lvl]))
                c2_, q2_ = href(parts[1][0], parts[1][1], float(z[lvl]))
                cr, qr = 0.5 * (c1_ + np.conj(c2_)), 0.5 * (q1_ + np.conj(q2_))
                # the error of the combination is measured against the size of its parts: a relative error E of each
                # part bounds |dH| by E*max|part|, whereas |cr| itself can be much smaller (the real part of a
                # response whose phase is near 90 degrees), which would amplify a legitimate error without bound
                cs_, qs_ = max(abs(c1_), abs(c2_)), max(abs(q1_), abs(q2_))
                if n == n0:
                    n_nyq += 1
            e = max(abs(Hc[j, i] - cr) / cs_, abs(Hq[j, i] - qr) / qs_)
            ea = max(ea, e)
            if r <= 0.5:
                eh = max(eh, e)
        return ea, eh, dn

    for n in (n0, 4 * n0):
        ea_, eh_, delta4 = errors_at(n)
        E_all.append(ea_)
        E_half.append(eh_)
    if n_nyq:
        out.label("nyquist-components-checked")

    n_half = sum(1 for s in sel if s[2] <= 0.5)
    out.detail = {"delta": delta, "E_all": E_all, "E_half": E_half, "admitted": len(sel), "admitted_r<=0.5": n_half,
                  "n0": n0, "rmax": max(s[2] for s in sel), "delta4": delta4}
    if not E_all[0] <= 6.0 * delta:
        out.bad(f"error on the resolving grid {E_all[0]:.3e} exceeds 6 x relative layer thickness {delta:.3e} "
                f"({gk} grid, n={n0}, family {c['fam']})")
    if not E_all[1] <= 6.0 * delta4:
        out.bad(f"error on the refined grid {E_all[1]:.3e} exceeds 6 x its relative layer thickness {delta4:.3e} "
                f"({gk} grid, n={4 * n0}, family {c['fam']})")
    # refinement must not make things worse - except that a coarse-grid error can be accidentally small (the error of a
    # component changes sign between two grids: 4.9e-3 at n=8, 4.8e-2 at 16, 3.0e-2 at 32, 1.6e-2 at 64 seen on a correct
    # tree), so a larger fine-grid error is accepted while it is below one relative layer thickness of the fine grid
    if not (E_all[1] < E_all[0] or E_all[1] <= delta4 or max(E_all) < 1e-6):
        out.bad(f"error does not decrease under refinement: {E_all[0]:.3e} at n={n0} -> {E_all[1]:.3e} at n={4 * n0} "
                f"({gk} grid; relative layer thickness {delta:.3e} -> {delta4:.3e})")
    if delta <= 1.0 and n_half >= 1 and n0 >= 16:
        out.label("rate-asserted")
        # a coarse-grid error that is accidentally small (the error of a component changes sign between two grids) shows as
        # an error that GROWS more than two-fold under refinement while staying below one relative layer thickness of the
        # fine grid (seen on correct trees: 6.5e-4 -> 2.3e-3 at delta(4n) = 0.064); a stalled convergence has ratio ~1
        accidental = E_half[1] > 2.0 * E_half[0] and E_half[1] <= delta4
        if accidental:
            out.label("coarse-error-accidentally-small")
        slow = not (E_half[1] <= max(E_half[0] / 2.5, 1e-6) or accidental)
        if slow and 16 * n0 <= 4096:
            # a milder form of the same accident: the coarse-grid error lies below the line the finer grids settle on
            # (thorough seed 15: 1.04e-2 at n=16, then 6.7e-3, 5.4e-3, 4.5e-3 at n=48, 64, 80, i.e. ~0.35/n; the line gives
            # 2.2e-2 at n=16), so one quartering shrinks it 1.9-fold only.  A stalled convergence stalls on the next
            # quartering as well; an accident does not: the verdict is taken from the quartering 4n -> 16n
            e16 = errors_at(16 * n0)[1]
            out.detail["E_half_16n"] = e16
            if e16 <= max(E_half[1] / 2.5, 1e-6):
                slow = False
                out.label("rate-met-on-the-next-quartering")
        if slow:
            out.bad(f"error shrinks only {E_half[0] / max(E_half[1], 1e-300):.2f}-fold when the layer thickness is quartered "
                    f"({E_half[0]:.3e} -> {E_half[1]:.3e}; {gk} grid, n={n0}, delta={delta:.3f}, family {c['fam']}, level {c['lvl_frac']})")
    kz0, kzt = float(fn[4](z0)), float(fn[4](ztop))
    out.nontrivial = len(sel) >= 2 and kzt / kz0 >= 2 and E_all[0] > 1e-5
    return out
