"""C09 - closure profiles are self-consistent with similarity theory and the grid."""

import math

import numpy as np
from hypothesis import strategies as st

from .. import gen
from ..core import Outcome

ID = "C09"
LEVEL = "exploration"
KAP = 0.4
CL, CM, CH = 0.845, 0.0856, 0.204
RULE = (
    "Hypothesis constructs physically consistent parameter sets (never filters): zm in [1,50], z0 in zm*[1e-4,0.3] adjusted so that "
    "ln(zm/z0)+psi(zm/L) >= 0.5, a wind vector of any direction, L of both signs with |zm/L| <= 5 or the neutral 1e9, n in 2..300, "
    "closure in MOST/MOSTM/CONSTANT/OAAHOC, Prandtl number, TKE, forcing by z0 or by the u* derived from it, default grid or custom "
    "(domain_height >= zm, stretch) inside the grid formula's validity condition zm/n < 0.99*b*exp(-domain_height/h). Oracles: "
    "(u,v)[n] == wind; (u,v)(z) == wind/|wind| * S(z) with the closure's similarity formula written independently; K formulas; "
    "Kz > 0 and Kx,Ky > 0 (MOSTM: Kx+Ky == K, along-wind part zero); z strictly increasing, z[0] == z0, z[n] == zm, z[-1] >= domain "
    "height, len(z) >= n+1; z0 -> u* -> z0 round trip gives identical arrays; psi(x) == integral_0^x (phi_m(t)-1)/t dt by quadrature, "
    "phi(x<0)^2 == phi_m^4, continuity of psi and phi at 0, equality with the Kormann-Meixner module's copies. "
    "Non-trivial = non-neutral stratification or custom grid; distinct = canonical JSON."
)
ASSUMPTIONS = [
    "no positivity claim on the wind speed at z0 (slightly negative in unstable MOST by the documented formula)",
    "custom grids only inside the documented formula's domain of validity",
]
TOLERANCES = {"formulas": "1e-9 relative", "grid anchors": "1e-12 * stretch", "quadrature": "1e-8", "round trip": "1e-10 relative"}
BUDGET = {"quick": dict(examples=4000, shards=1), "thorough": dict(examples=40000, shards=16)}


def _psi(x):
    return gen.psi_m(x)


def _phi(x):
    return 1.0 + 5.0 * x if x > 0 else (1.0 - 16.0 * x) ** -0.5


def _phim(x):
    return 1.0 + 5.0 * x if x > 0 else (1.0 - 16.0 * x) ** -0.25


@st.composite
def _case(draw):
    closure = draw(st.sampled_from(["MOST", "MOST", "MOSTM", "CONSTANT", "OAAHOC"]))
    zm = draw(gen.logfl(1.0, 50.0))
    int_typed = draw(st.integers(0, 3)) == 0  # measurement height in whole metres given as an int, n as a NumPy integer
    if int_typed:
        zm = int(max(1, round(zm)))
    stab = draw(st.sampled_from(["neutral", "stable", "unstable", "unstable", "near-neutral", "neutral-inf"]))
    if stab == "neutral":
        mol = 1e9
    elif stab == "neutral-inf":
        mol = draw(st.sampled_from(["inf", "-inf"]))  # the neutral limit itself (kept as a string: JSON has no infinity)
    elif stab == "near-neutral":
        mol = draw(st.sampled_from([1.0, -1.0])) * zm * draw(gen.logfl(1e3, 1e7))
    else:
        mol = (1.0 if stab == "stable" else -1.0) * zm / draw(gen.logfl(0.01, 5.0))
    f = draw(gen.logfl(1e-4, 0.3))
    need = 0.5 - _psi(zm / float(mol))
    if math.log(1.0 / f) < need:
        f = math.exp(-need)
    z0 = zm * f
    speed = draw(gen.logfl(0.5, 15.0))
    ang = draw(st.one_of(gen.fl(0.0, 2 * math.pi), st.sampled_from([0.0, 0.5 * math.pi, math.pi, 1.5 * math.pi]),
                         # a hair off an axis: what a compass wind direction becomes after sin/cos, or a sonic's tilt error
                         st.tuples(st.integers(0, 3), st.integers(3, 15), st.sampled_from([-1.0, 1.0]), gen.fl(1.0, 9.9)).map(
                             lambda t: t[0] * 0.5 * math.pi + t[2] * t[3] * 10.0 ** -t[1])))
    wind = [speed * math.cos(ang), speed * math.sin(ang)]
    n = draw(st.one_of(st.integers(2, 30), st.integers(2, 300)))
    case = {"closure": closure, "zm": zm, "mol": mol, "wind": wind, "n": n, "stab": stab, "int_typed": int_typed,
            "prsc": draw(st.sampled_from([1.0, 1.0, 0.7, 1.35])),
            "forcing": draw(st.sampled_from(["z0", "ustar"])), "z0": z0}
    if closure == "OAAHOC":
        case["tke"] = draw(gen.fl(0.2, 4.0))
        expo = math.log(zm / z0)
        case["ustar"] = math.sqrt(CM * CL * speed * math.sqrt(case["tke"]) / expo)
        case["forcing"] = "ustar"
    else:
        case["ustar"] = KAP * speed / (math.log(zm / z0) + _psi(zm / float(mol)))
    case["twin"] = draw(st.sampled_from(["prsc", "closure", "wind", "n", "mol", "none"]))
    if draw(st.integers(0, 2)) == 0:
        h = zm * draw(gen.logfl(0.5, 10.0))
        dh = zm * draw(gen.logfl(1.0, 4.0))
        bb = zm / (math.exp(-z0 / h) - math.exp(-zm / h))
        # validity: zm/n < 0.99*bb*exp(-dh/h)  -> lower the domain height until it holds
        while zm / n >= 0.99 * bb * math.exp(-dh / h) and dh > zm:
            dh = max(zm, 0.9 * dh)
        # either argument may be given on its own; the other then takes its documented default (2 * meas_height)
        which = draw(st.sampled_from(["both", "both", "stretch", "domain_height"]))
        if which == "stretch":
            dh = 2.0 * zm
        elif which == "domain_height":
            h = 2.0 * zm
            bb = zm / (math.exp(-z0 / h) - math.exp(-zm / h))
        if zm / n < 0.99 * bb * math.exp(-dh / h):
            if which in ("both", "stretch"):
                case["stretch"] = h
            if which in ("both", "domain_height"):
                case["domain_height"] = dh
    return case


def strategy(tier):
    return _case()


def _call(case, forcing=None, **override):
    from bldfm.pbl_model import vertical_profiles

    kw = dict(n=np.int64(case["n"]) if case.get("int_typed") else case["n"], meas_height=case["zm"], wind=tuple(case["wind"]), mol=float(case["mol"]), closure=case["closure"],
              prsc=case["prsc"])
    f = forcing or case["forcing"]
    if f == "z0":
        kw["z0"] = case["z0"]
    else:
        kw["ustar"] = case["ustar"]
    if "tke" in case:
        kw["tke"] = case["tke"]
    for k in ("stretch", "domain_height"):
        if k in case:
            kw[k] = case[k]
    kw.update(override)
    z, prof = vertical_profiles(**kw)
    return np.asarray(z, float).ravel(), tuple(np.asarray(a, float).ravel() for a in prof)


def check_case(case):
    from bldfm import ffm_kormann_meixner as km
    from bldfm import pbl_model

    out = Outcome()
    cl, zm, L, n = case["closure"], case["zm"], float(case["mol"]), case["n"]
    um, vm = case["wind"]
    U = math.hypot(um, vm)
    custom = "stretch" in case or "domain_height" in case
    out.label("zm=int" if isinstance(case["zm"], int) else "zm=float", "closure=" + cl, "stab=" + case["stab"], "forcing=" + case["forcing"], "grid=custom" if custom else "grid=default",
              "n>30" if n > 30 else "n<=30")
    try:
        z, (u, v, Kx, Ky, Kz) = _call(case)
    except Exception as e:
        out.bad(f"vertical_profiles raised {type(e).__name__}: {e}")
        return out

    # parameters as the documentation defines them
    if cl == "OAAHOC":
        ustar = case["ustar"]
        z0 = zm * math.exp(-CM * CL * U * math.sqrt(case["tke"]) / ustar**2)
    elif case["forcing"] == "z0":
        z0 = case["z0"]
        ustar = U * KAP / (math.log(zm / z0) + _psi(zm / L))
    else:
        ustar = case["ustar"]
        z0 = zm * math.exp(-KAP * U / ustar + _psi(zm / L))
    h = case.get("stretch", 2.0 * zm)
    zmx = case.get("domain_height", 2.0 * zm)

    # ---- grid
    if not (np.all(np.isfinite(z)) and np.all(np.diff(z) > 0)):
        out.bad("vertical grid is not finite and strictly increasing")
        return out
    if len(z) < n + 1:
        out.bad(f"grid has {len(z)} nodes, fewer than n+1 = {n + 1}")
        return out
    if not abs(z[0] - z0) <= 1e-12 * h + 1e-9 * z0:
        out.bad(f"grid starts at {z[0]!r}, roughness length is {z0!r}")
    if not abs(z[n] - zm) <= 1e-12 * h + 1e-12 * zm:
        out.bad(f"z[n] = {z[n]!r} is not the measurement height {zm!r} (n = {n})")
    if not z[-1] >= zmx * (1 - 1e-9):
        out.bad(f"grid top {z[-1]!r} does not reach the domain height {zmx!r}")

    # ---- wind
    if not (abs(u[n] - um) <= 1e-9 * U and abs(v[n] - vm) <= 1e-9 * U):
        out.bad(f"wind at the measurement height is {(u[n], v[n])}, supplied {(um, vm)}")
    if cl in ("MOST", "MOSTM"):
        S = np.array([ustar / KAP * (math.log(zz / z0) + _psi(zz / L)) for zz in z])
    elif cl == "CONSTANT":
        S = np.full(len(z), U)
    else:
        S = np.array([ustar**2 / CM / CL / math.sqrt(case["tke"]) * math.log(zz / z0) for zz in z])
    sscale = max(np.abs(S).max(), U)
    if not (np.abs(u - um / U * S).max() <= 1e-9 * sscale and np.abs(v - vm / U * S).max() <= 1e-9 * sscale):
        out.bad(f"wind profile is not wind/|wind| * similarity speed (max dev {max(np.abs(u - um / U * S).max(), np.abs(v - vm / U * S).max()):.3e})")
    if not np.abs(u * vm - v * um).max() <= 1e-12 * sscale * U:
        out.bad("wind direction turns with height")

    # ---- diffusivities
    if cl in ("MOST", "MOSTM"):
        K = np.array([KAP * ustar * zz / _phi(zz / L) / case["prsc"] for zz in z])
    elif cl == "CONSTANT":
        K = np.full(len(z), KAP * ustar * zm / case["prsc"])
    else:
        K = CH * CL * z * math.sqrt(case["tke"])
    if not np.abs(Kz - K).max() <= 1e-9 * K.max():
        out.bad(f"Kz deviates from the similarity formula by {np.abs(Kz - K).max():.3e}")
    if not np.all(Kz > 0):
        out.bad("Kz not strictly positive")
    if cl == "MOSTM":
        if not (np.abs(Kx + Ky - K).max() <= 1e-9 * K.max() and np.all(Kx >= 0) and np.all(Ky >= 0)):
            out.bad("MOSTM: Kx + Ky != K or negative component")
        along = Kx * um**2 + Ky * vm**2  # crosswind-only diffusion: K_along = (Kx um^2 + Ky vm^2 - ...)
        # Kx = K v^2/|U|^2, Ky = K u^2/|U|^2  =>  diffusion tensor has no component along the wind
        if not (np.abs(Kx - K * vm**2 / U**2).max() <= 1e-9 * K.max() and np.abs(Ky - K * um**2 / U**2).max() <= 1e-9 * K.max()):
            out.bad("MOSTM: horizontal diffusivities are not the crosswind projection of K")
        # ... each to its own relative accuracy: the crosswind share K v^2/|U|^2 is a product and has a few ulp of error
        # however small it is (wind a fraction of a degree off an axis, as wind_dir = 90 gives through sin(pi) = 1.2e-16);
        # below 1e-250 K the squares underflow and nothing is claimed
        for name, got, share in (("Kx", Kx, vm**2 / U**2), ("Ky", Ky, um**2 / U**2)):
            ref = K * share
            ok = np.abs(got - ref) <= 1e-9 * ref + 1e-250 * K.max()
            if not np.all(ok):
                i = int(np.argmin(ok))
                out.bad(f"MOSTM: {name}[{i}] = {got[i]!r} but K * crosswind share = {ref[i]!r} (relative deviation "
                        f"{abs(got[i] - ref[i]) / max(ref[i], 1e-300):.3e}; wind {(um, vm)})")
    else:
        if not (np.all(Kx > 0) and np.all(Ky > 0)):
            out.bad("Kx, Ky not strictly positive")
        if not (np.abs(Kx - K).max() <= 1e-9 * K.max() and np.abs(Ky - K).max() <= 1e-9 * K.max()):
            out.bad("Kx, Ky deviate from the similarity formula")

    # ---- z0 -> u* -> z0 round trip
    if cl != "OAAHOC":
        other = "ustar" if case["forcing"] == "z0" else "z0"
        c2 = dict(case)
        c2["z0"], c2["ustar"] = z0, ustar
        try:
            z2, prof2 = _call(c2, forcing=other)
            # the node count is int-of-a-float: when the domain height is a whole number of zeta steps (e.g. equal to
            # zm) the one-ulp change of z0 in the round trip may add or drop the single node above the domain height
            m = min(len(z), len(z2))
            if abs(len(z) - len(z2)) > 1 or m < n + 1 or min(z[m - 1], z2[m - 1]) < zmx * (1 - 1e-9):
                out.bad(f"round trip z0 <-> u*: grids have {len(z)} and {len(z2)} nodes")
            for name, a, b in zip(("z", "u", "v", "Kx", "Ky", "Kz"), (z, u, v, Kx, Ky, Kz), (z2,) + prof2):
                a, b = a[:m], b[:m]
                # one scale per kind of quantity: a crosswind diffusivity of 1e-297 (wind almost along an axis, MOSTM)
                # is compared relative to the diffusivity K, not to itself
                scale = {"z": np.abs(z).max(), "u": U, "v": U}.get(name, np.abs(Kz).max())
                if not np.abs(a - b).max() <= 1e-10 * max(scale, 1e-300):
                    out.bad(f"round trip z0 <-> u*: {name} differs by {np.abs(a - b).max():.3e}")
                    break
        except Exception as e:
            out.bad(f"round trip call raised {type(e).__name__}: {e}")

    # ---- stability functions
    x = zm / L
    from scipy.integrate import quad

    val, _ = quad(lambda t: (_phim(t) - 1.0) / t if t != 0 else (5.0 if x > 0 else 4.0), 0.0, x, epsabs=1e-12, epsrel=1e-12, limit=200)
    got = float(pbl_model.psi(np.float64(x)))
    if not abs(got - val) <= 1e-8 * max(1.0, abs(val)):
        out.bad(f"psi({x}) = {got!r} but the integral of (phi_m - 1)/t is {val!r}")
    gp = float(pbl_model.phi(np.float64(x)))
    if not abs(gp - _phi(x)) <= 1e-12 * _phi(x):
        out.bad(f"phi({x}) = {gp!r}, flux-gradient function gives {_phi(x)!r}")
    if x < 0 and not abs(gp**2 - _phim(x) ** 4) <= 1e-10 * gp**2:
        out.bad("phi(x<0)^2 != phi_m^4")
    if float(pbl_model.psi(np.float64(0.0))) != 0.0 or float(pbl_model.psi(np.float64(-0.0))) != 0.0:
        out.bad(f"psi(0) = {float(pbl_model.psi(np.float64(0.0)))!r} at exactly neutral stratification, expected 0")
    if float(pbl_model.phi(np.float64(0.0))) != 1.0:
        out.bad(f"phi(0) = {float(pbl_model.phi(np.float64(0.0)))!r} at exactly neutral stratification, expected 1")
    for eps in (1e-6, 1e-9):
        for sx in (eps, -eps):
            if not abs(float(pbl_model.psi(np.float64(sx)))) <= 6 * eps:
                out.bad(f"psi not continuous through neutral: psi({sx}) = {float(pbl_model.psi(np.float64(sx)))!r}")
            if not abs(float(pbl_model.phi(np.float64(sx))) - 1.0) <= 9 * eps:
                out.bad(f"phi not continuous through neutral: phi({sx}) = {float(pbl_model.phi(np.float64(sx)))!r}")
    # array evaluation: same numbers as scalar evaluation, a new array, the caller's array untouched
    xa = np.array([x, 0.5 * x, -0.25 * abs(x), 0.0, 0.3 * abs(x)])
    keep = xa.copy()
    pa = pbl_model.psi(xa)
    fa = pbl_model.phi(xa)
    if not np.array_equal(xa, keep):
        out.bad(f"psi/phi modified the array passed to them: {keep.tolist()} -> {xa.tolist()}")
    elif pa is xa or fa is xa:
        out.bad("psi/phi returned the caller's array object")
    else:
        for xi, pv, fv in zip(keep, np.asarray(pa), np.asarray(fa)):
            if not (abs(pv - _psi(xi)) <= 1e-12 * max(1.0, abs(_psi(xi))) and abs(fv - _phi(xi)) <= 1e-12 * _phi(xi)):
                out.bad(f"array evaluation psi/phi({xi}) = {pv!r}/{fv!r}, scalar formulas give {_psi(xi)!r}/{_phi(xi)!r}")
                break

    # reference model's copies
    zz = np.array([zm, 0.5 * zm])
    LL = np.array([L, L])
    if not np.abs(km._psiM(zz, LL) - pbl_model.psi(zz / LL)).max() <= 1e-12 * max(1.0, np.abs(pbl_model.psi(zz / LL)).max()):
        out.bad("psi disagrees with the Kormann-Meixner module's _psiM")
    if not np.abs(km._phiC(zz, LL) - pbl_model.phi(zz / LL)).max() <= 1e-12 * np.abs(pbl_model.phi(zz / LL)).max():
        out.bad("phi disagrees with the Kormann-Meixner module's _phiC")

    # the copies must agree for integer-typed heights as well (heights are often whole metres)
    zi = np.array([int(round(zm)) + 1, 3])
    if not np.abs(km._psiM(zi, LL) - pbl_model.psi(zi / LL)).max() <= 1e-12 * max(1.0, np.abs(pbl_model.psi(zi / LL)).max()):
        out.bad(f"psi disagrees with the Kormann-Meixner module's _psiM for integer-typed heights {zi.tolist()}")
    if not np.abs(km._phiC(zi, LL) - pbl_model.phi(zi / LL)).max() <= 1e-12 * np.abs(pbl_model.phi(zi / LL)).max():
        out.bad(f"phi disagrees with the Kormann-Meixner module's _phiC for integer-typed heights {zi.tolist()}")

    out.nontrivial = case["stab"] in ("stable", "unstable") or custom

    # a second call in the same process that differs in exactly ONE argument must be judged by the same oracles
    # (a profile table remembered from the previous call and keyed on part of the arguments would show here)
    tw = case.get("twin", "none")
    if tw != "none" and not case.get("_is_twin") and not out.fail:
        t = dict(case)
        t["_is_twin"] = True
        if tw == "prsc":
            t["prsc"] = 0.7 if case["prsc"] != 0.7 else 1.35
        elif tw == "closure" and cl in ("MOST", "MOSTM", "CONSTANT"):
            t["closure"] = {"MOST": "MOSTM", "MOSTM": "CONSTANT", "CONSTANT": "MOST"}[cl]
        elif tw == "wind":
            t["wind"] = [-vm, um]  # same speed, turned by 90 degrees
        elif tw == "n":
            t["n"] = n + 1
            t.pop("stretch", None), t.pop("domain_height", None)
        elif tw == "mol" and cl != "OAAHOC" and case["stab"] != "neutral":
            t["mol"] = 2.0 * L if math.isfinite(L) else L
            # keep the pair (z0, ustar) consistent for the new stability
            t["ustar"] = KAP * U / (math.log(zm / case["z0"]) + _psi(zm / t["mol"]))
        o2 = check_case(t)
        for f in o2.fail:
            out.bad(f"second call differing only in {tw}: {f}")
        out.label("twin=" + tw)
    return out
