"""C10 - the k-th returned slice is the solution at the k-th requested level."""

import numpy as np
from hypothesis import strategies as st

from .. import env, gen, sut, tol
from ..core import Outcome

ID = "C10"
LEVEL = "exploration"
RULE = (
    "Hypothesis draws profiles (closures with n up to 12 (one case in six: up to 80, i.e. ~160 nodes), free arrays with up to 24 nodes, constants), a grid, halo, modes, a source, "
    "a tower, footprint (one in three answered by a second call from the Green's-function cache) or dispersion, numerical or analytic (constant profiles), precision, and an ordered selection of distinct "
    "levels (ascending / descending / shuffled, with or without node 0 and the top node) passed as Python int, NumPy integer scalar, "
    "list, tuple-free int32 or int64 array. Oracle: slice k of the multi-level result equals the single-level call for levels[k] and "
    "slice levels[k] of the full-column call (<= 1e-13 of the field maximum; bit-identity is counted), the returned height of slice k "
    "is z[levels[k]] exactly, shapes are (len(levels), ny, nx) (squeezed for one level). One case in six repeats the selection through the configuration-driven interface (domain.output_levels of run_bldfm_single against its single-level and full-output runs). Non-trivial = >= 2 levels; distinct = "
    "canonical JSON."
)
ASSUMPTIONS = ["levels are distinct (a subset has no repeats)", "shooting growth bounded by exp(13.8) by construction"]
TOLERANCES = {"slice equality": "1e-13 * max|field| (double), 1e-6 * max|field| (single)", "heights": "exact"}
BUDGET = {"quick": dict(examples=800, shards=1), "thorough": dict(examples=8000, shards=16)}


def warmup():
    sut.warm()


@st.composite
def _case(draw):
    analytic = draw(st.integers(0, 3)) == 0
    big = draw(st.integers(0, 5)) == 0  # large vertical grids now and then (up to ~160 nodes)
    steep = draw(st.integers(0, 4)) == 0  # fine cells under a tall column: shooting growth up to e^45 (rounding-dominated
    # upper levels; the slices must still be the same arrays whichever levels are requested together)
    case = draw(gen.problem(kinds=("const",) if analytic else (("closure",) if big else ("closure", "free", "const")),
                            nzmax=24, nclosure=80 if big else 12, nmax=8, gmax=45.0 if steep else 13.8))
    case["steep"] = steep
    if steep:
        import math as _m
        zz, pp = gen.build_profiles(case["prof"])
        for _ in range(60):  # refine the cells until the Nyquist mode's growth is in the rounding-dominated range
            if tol.log_growth(zz, pp, _m.pi / case["dx"], _m.pi / case["dy"]) >= 34.0:
                break
            case["dx"], case["dy"] = float(f"{case['dx'] * 0.85:.6g}"), float(f"{case['dy'] * 0.85:.6g}")
    z, _ = gen.build_profiles(case["prof"])
    nz = len(z)
    case["analytic"] = analytic
    case["footprint"] = draw(st.booleans())
    case["cached"] = draw(st.integers(0, 2)) == 0  # footprint requests: answered from the Green's-function cache
    case["halo"] = draw(gen.halo(case))
    px, py, _ = gen.pad_widths(case, case["halo"]["value"])
    case["modes"] = draw(gen.modes(case, px, py))
    lv = draw(gen.levels(nz, draw(st.sampled_from([1, 2, 2, 3])), 5, ascending=False))
    extra = draw(st.sampled_from(["none", "top", "zero", "both"]))
    if extra in ("top", "both") and nz - 1 not in lv:
        lv.insert(draw(st.integers(0, len(lv))), nz - 1)
    if extra in ("zero", "both") and 0 not in lv:
        lv.insert(draw(st.integers(0, len(lv))), 0)
    order = draw(st.sampled_from(["asc", "desc", "asis", "asis"]))
    if order == "asc":
        lv = sorted(lv)
    elif order == "desc":
        lv = sorted(lv, reverse=True)
    case["levels"] = lv
    case["level_type"] = draw(st.sampled_from(["list", "list", "int64", "int64", "int32", "int32", "scalar", "npscalar"]))
    case["q"] = draw(gen.source(case["ny"], case["nx"]))
    case["tower"] = draw(gen.tower(case))
    case["bg"] = draw(st.sampled_from([0.0, 3.0]))
    case["precision"] = draw(st.sampled_from(["double", "double", "single"]))
    # one case in six also asks for its levels the way a user of the configuration-driven interface does
    # (domain.output_levels of run_bldfm_single), with one of two forcings
    case["via_config"] = draw(st.sampled_from([None, None, None, None, None, [0.32, -45.0, 3.1, 200.0], [0.41, 120.0, 4.4, 75.0]]))
    return case


def strategy(tier):
    return _case()


def _levels_arg(lv, typ):
    if typ == "list":
        return list(lv)
    if typ == "int64":
        return np.asarray(lv, dtype=np.int64)
    if typ == "int32":
        return np.asarray(lv, dtype=np.int32)
    if typ == "scalar":
        return int(lv[0])
    return np.int64(lv[0])


def check_case(case):
    out = Outcome()
    z, prof = gen.build_profiles(case["prof"])
    nz = len(z)
    q0 = np.asarray(case["q"], float)
    ny, nx = q0.shape
    dom = gen.domain_of(case)
    lv = list(case["levels"])
    typ = case["level_type"]
    if typ in ("scalar", "npscalar"):
        lv = lv[:1]
    fpm = case["footprint"]
    mp = gen.meas_pt_of(case, case["tower"]) if fpm else (0.0, 0.0)
    kw = dict(modes=gen.modes_arg(case["modes"]), meas_pt=mp, srf_bg_conc=case["bg"], footprint=fpm,
              analytic=case["analytic"], halo=case["halo"]["value"], precision=case["precision"])
    asc = lv == sorted(lv)
    desc = lv == sorted(lv, reverse=True)
    out.label("order=" + ("single" if len(lv) == 1 else "ascending" if asc else "descending" if desc else "unsorted"),
              "analytic" if case["analytic"] else "numerical", "footprint" if fpm else "dispersion",
              f"type={typ}", case["precision"], "with-top" if nz - 1 in lv else "without-top")
    if case["analytic"] and len(lv) > 1:
        out.label("analytic-multi")
    rel = 1e-13 if case["precision"] == "double" else 1e-6

    grid, conc, flx = sut.S(q0, z, prof, dom, _levels_arg(lv, typ), **kw)
    if fpm and case.get("cached"):
        # the same request served from the Green's-function cache (stored by a first call, read back by a second):
        # what comes back must still be the requested levels with their own heights
        import shutil
        import tempfile

        from bldfm.cache import GreensFunctionCache

        d = tempfile.mkdtemp(prefix="c10-cache-", dir=str(env.scratch()))
        try:
            cache = GreensFunctionCache(d)
            if len(lv) > 1:
                # the same levels asked for in ascending order first: another request, whose entry must not answer this one
                sut.S(q0, z, prof, dom, sorted(lv), cache=cache, **kw)
            sut.S(q0, z, prof, dom, _levels_arg(lv, typ), cache=cache, **kw)
            grid, conc, flx = sut.S(q0, z, prof, dom, _levels_arg(lv, typ), cache=cache, **kw)
        finally:
            shutil.rmtree(d, ignore_errors=True)
        out.label("served-from-cache")
    X, Y, Z = grid
    want_shape = (ny, nx) if len(lv) == 1 else (len(lv), ny, nx)
    for name, a in (("conc", conc), ("flx", flx), ("X", X), ("Y", Y), ("Z", Z)):
        if np.shape(a) != want_shape:
            out.bad(f"{name} has shape {np.shape(a)}, expected {want_shape} for levels {lv} ({typ})")
    if out.fail:
        out.nontrivial = len(lv) >= 2
        return out
    conc3, flx3, Z3 = sut.as3d(conc), sut.as3d(flx), sut.as3d(Z)

    _, cfull, ffull = sut.S(q0, z, prof, dom, list(range(nz)), **kw)
    if case.get("steep"):
        out.label("steep-column")
    if not (np.all(np.isfinite(cfull)) and np.all(np.isfinite(ffull))):
        out.label("non-finite-column(skipped)")  # overflow in a rounding-dominated column: nothing to compare
        return out
    fs0, cs0 = (0.0, 0.0) if fpm else tol.natural_scales(q0, z, prof, case["bg"])
    bit = True
    for k, l in enumerate(lv):
        if not np.all(Z3[k] == z[l]):
            out.bad(f"slice {k}: reported height {Z3[k].flat[0]!r} but level {l} is at z = {z[l]!r} (levels {lv})")
        _, c1, f1 = sut.S(q0, z, prof, dom, int(l), **kw)
        for name, got, single_, full_ in (("conc", conc3[k], c1, cfull[l]), ("flux", flx3[k], f1, ffull[l])):
            scale = max(tol.maxabs(single_), tol.maxabs(full_), abs(case["bg"]) if name == "conc" else 0.0,
                        cs0 if name == "conc" else fs0)
            e1 = tol.maxabs(got - single_)
            e2 = tol.maxabs(got - full_)
            bit &= bool(e1 == 0.0 and e2 == 0.0)
            if not (e1 <= rel * scale and e2 <= rel * scale):
                out.bad(
                    f"{name} slice {k} of levels={lv} is not the solution at level {l}: differs from the single-level call by "
                    f"{e1:.3e} and from the full-column slice by {e2:.3e} (field max {scale:.3e})"
                )
    out.label("bit-identical" if bit else "rounding-level-differences")
    out.nontrivial = len(lv) >= 2
    if case.get("via_config"):
        _via_config(case, lv, out)
    return out


def _via_config(case, lv, out):
    """The same selection of levels requested through the configuration (domain.output_levels) of run_bldfm_single:
    slot k is the single-level run for the k-th requested level and the k-th requested slice of the full-output run,
    and reports that level's height."""
    import dataclasses

    from bldfm import parse_config_dict, run_bldfm_single

    nzc = min(max(lv) + 1, 12) if max(lv) >= 1 else 4
    lvc = list(dict.fromkeys(int(l) % (nzc + 1) for l in lv))
    us, mol, ws, wd = case["via_config"]
    R = 6_371_000.0
    cfg = parse_config_dict({
        "domain": {"nx": 8, "ny": 6, "xmax": 160.0, "ymax": 150.0, "nz": nzc, "modes": [8, 6], "ref_lat": 48.0, "ref_lon": 11.0,
                   "output_levels": list(lvc)},
        "towers": [{"name": "T", "z_m": 3.5, "lat": 48.0 + float(np.degrees(50.0 / R)),
                    "lon": 11.0 + float(np.degrees(60.0 / (R * np.cos(np.radians(48.0)))))}],
        "met": {"ustar": us, "mol": mol, "wind_speed": ws, "wind_dir": wd},
        "solver": {"closure": "MOST", "footprint": bool(case["footprint"]), "precision": case["precision"]},
    })
    out.label("via-config", "via-config-unsorted" if lvc != sorted(lvc) else "via-config-ascending")
    try:
        r = run_bldfm_single(cfg, cfg.towers[0])
        full = run_bldfm_single(dataclasses.replace(cfg, domain=dataclasses.replace(cfg.domain, output_levels=None, full_output=True)),
                                cfg.towers[0])
        c3, f3, Z3 = sut.as3d(r["conc"]), sut.as3d(r["flx"]), sut.as3d(r["grid"][2])
        if c3.shape[0] != len(lvc):
            out.bad(f"run_bldfm_single with output_levels={lvc} returned {c3.shape[0]} slices")
            return
        cF, fF, ZF = np.asarray(full["conc"]), np.asarray(full["flx"]), np.asarray(full["grid"][2])
        rel = 1e-13 if case["precision"] == "double" else 1e-6
        for k, l in enumerate(lvc):
            one = run_bldfm_single(dataclasses.replace(cfg, domain=dataclasses.replace(cfg.domain, output_levels=[l])), cfg.towers[0])
            z1 = np.asarray(one["grid"][2])
            if not (np.all(Z3[k] == z1.flat[0]) and np.all(Z3[k] == ZF[l].flat[0])):
                out.bad(f"run_bldfm_single with output_levels={lvc}: slot {k} reports height {Z3[k].flat[0]!r}, level {l} is at "
                        f"{ZF[l].flat[0]!r} (single-level run: {z1.flat[0]!r})")
            for name, got, s1, sF in (("conc", c3[k], sut.as3d(one["conc"])[0], cF[l]), ("flx", f3[k], sut.as3d(one["flx"])[0], fF[l])):
                scale = max(tol.maxabs(s1), tol.maxabs(sF), 1e-300)
                if not (tol.maxabs(got - s1) <= rel * scale and tol.maxabs(got - sF) <= rel * scale):
                    out.bad(f"run_bldfm_single with output_levels={lvc}: {name} slot {k} is not the solution at level {l} (differs from "
                            f"the single-level run by {tol.maxabs(got - s1):.3e}, from the full-output slice by "
                            f"{tol.maxabs(got - sF):.3e}; field max {scale:.3e})")
    except Exception as e:
        out.bad(f"run_bldfm_single with output_levels={lvc} raised {type(e).__name__}: {e}")
