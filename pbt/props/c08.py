"""C08 - the meteorological wind-direction convention holds end to end."""

import math

import numpy as np
from hypothesis import strategies as st

from .. import gen, sut
from ..core import Outcome

ID = "C08"
LEVEL = "exploration"
RULE = (
    "Hypothesis draws wind_dir in [0,360) (floats and the 8 compass points), speed, Monin-Obukhov length of both signs, closure in "
    "MOST/MOSTM/CONSTANT, z_m in [2,5], roughness-length forcing or (one case in three) the friction velocity consistent with it, a square or oblong grid (32..64 cells per axis, dx 1..5 z_m, "
    "dy/dx in [0.7,1.4]), halo default or domain/3 (never 0: the plume would wrap around a bare periodic domain), any reference "
    "lat/lon, and a tower placed by latitude/longitude in the central 30 % of the domain. The configuration is built with "
    "parse_config_dict and run with run_bldfm_single (footprint, double; in a quarter of the cases the result examined is the one a second identical call reads back from the Green's-function cache), then once more in the same process with the same met "
    "state and the direction turned by 90..270 degrees. Oracle (both runs): bearing from the tower to the centroid of the "
    "positive part of the footprint inside the largest tower-centred disc that fits the grid equals wind_dir within 12 degrees "
    "(asserted on resolved domains: the returned window holds >= 80 % of the footprint's unit mass - otherwise the plume leaves the padded periodic domain and wraps around -, >= 50 % of the positive mass is inside the disc and the centroid is >= 3 cells away); compute_wind_fields "
    "preserves speed, equals (-U sin, -U cos), and maps 0/90/180/270 to winds toward S/W/N/E. Non-trivial = bearing asserted; "
    "distinct = canonical JSON."
)
ASSUMPTIONS = [
    "the centroid is taken over a disc centred on the tower (a rectangular window biases the bearing by up to 26 degrees on correct fields)",
    "halo never 0",
]
TOLERANCES = {"bearing": "12 degrees (calibrated on the repaired tree: max 6.6 degrees over 5423 asserted runs with window mass >= 0.8; the tail grows quickly below that - 8.7 in 10 375 runs and 12.03 once in ~50 000 at >= 0.7, 20 at >= 0.6, 38 when only half of the footprint fits the domain and the rest wraps around; any convention error is >= 45 degrees)",
              "wind decomposition": "1e-12 relative"}
BUDGET = {"quick": dict(examples=800, shards=1), "thorough": dict(examples=3000, shards=16)}
NO_SHRINK = {"quick": False}


def warmup():
    sut.warm()


@st.composite
def _case(draw):
    octant = draw(st.sampled_from([3, 6, 1, 4, 7, 2, 5, 0]))
    if draw(st.integers(0, 3)) == 0:
        wd = 45.0 * octant  # compass point
    else:
        wd = (45.0 * octant - 22.5 + draw(gen.fl(0.0, 44.999))) % 360.0
    zm = draw(gen.fl(2.0, 5.0))
    nx, ny = draw(st.sampled_from([(48, 48), (64, 32), (32, 64), (48, 40), (33, 47)]))
    dx = zm * draw(gen.fl(1.0, 5.0))
    dy = dx * draw(gen.fl(0.7, 1.4))
    return {
        "wd": wd, "zm": zm, "closure": draw(st.sampled_from(["MOST", "MOSTM", "CONSTANT"])),
        "mol": draw(st.sampled_from([-1.0, -1.0, 1.0])) * draw(gen.logfl(10.0, 1e4)),
        "ws": draw(gen.fl(2.0, 8.0)), "z0": zm * draw(gen.logfl(10**-2.5, 10**-1.2)),
        "nx": nx, "ny": ny, "dx": float(f"{dx:.5g}"), "dy": float(f"{dy:.5g}"),
        "fx": draw(gen.fl(0.35, 0.65)), "fy": draw(gen.fl(0.35, 0.65)),
        # any reference origin; one in four next to the equator / the Greenwich meridian / the antimeridian, so that
        # the domain straddles it (or the origin coordinate is exactly 0)
        "ref": [draw(st.one_of(gen.fl(-60.0, 60.0), gen.fl(-60.0, 60.0), gen.fl(-60.0, 60.0), st.sampled_from([0.0, -0.002, 0.001]))),
                draw(st.one_of(gen.fl(-180.0, 180.0), gen.fl(-180.0, 180.0), gen.fl(-180.0, 180.0),
                               st.sampled_from([0.0, -0.002, -0.0005, 0.001, 179.998, -179.999])))],
        "halo": draw(st.sampled_from(["default", "third"])), "nz": draw(st.integers(8, 16)),
        "turn": draw(st.sampled_from([90.0, 135.0, 180.0, 225.0, 270.0])),
        "cached": draw(st.integers(0, 3)) == 0,
        "reorigin": draw(st.integers(0, 2)) == 0,
        "forcing": draw(st.sampled_from(["z0", "z0", "ustar"])),
    }


def strategy(tier):
    return _case()


def check_case(case):
    from bldfm import compute_wind_fields

    out = Outcome()
    wd, U = case["wd"], case["ws"]
    octant = int(((wd + 22.5) % 360) // 45)
    out.label(f"octant={octant}", "closure=" + case["closure"], "stable" if case["mol"] > 0 else "unstable",
              "halo=" + case["halo"], "square-grid" if case["nx"] == case["ny"] else "oblong-grid")

    # ---- unit relations
    u, v = compute_wind_fields(U, wd)
    th = math.radians(wd)
    if not (abs(math.hypot(u, v) - U) <= 1e-12 * U and abs(u + U * math.sin(th)) <= 1e-12 * U and abs(v + U * math.cos(th)) <= 1e-12 * U):
        out.bad(f"compute_wind_fields({U}, {wd}) = {(u, v)}: not (-U sin, -U cos)")
    for d, (eu, ev) in ((0.0, (0, -1)), (90.0, (-1, 0)), (180.0, (0, 1)), (270.0, (1, 0))):
        cu, cv = compute_wind_fields(U, d)
        if not (abs(cu - eu * U) <= 1e-12 * U and abs(cv - ev * U) <= 1e-12 * U):
            out.bad(f"wind from {d} degrees gives components {(cu, cv)}, expected {(eu * U, ev * U)}")

    # ---- end to end: the drawn direction, then a second direction with the SAME met state in the same process
    #      (a direction sweep at fixed forcing is what a wind-rose study does; state kept between runs must not leak)
    base = _end_to_end(case, wd, out, primary=True)
    _end_to_end(case, (wd + case.get("turn", 135.0)) % 360.0, out, primary=False, base=base if case.get("reorigin") else None)
    return out


def _ustar_for(case):
    """Friction velocity consistent with the drawn roughness length through the diabatic log law (Businger-Dyer)."""
    x = case["zm"] / case["mol"]
    if x > 0:
        psi = 5.0 * x
    else:
        xi = (1.0 - 16.0 * x) ** 0.25
        psi = -2.0 * math.log(0.5 * (1 + xi)) - math.log(0.5 * (1 + xi * xi)) + 2.0 * math.atan(xi) - 0.5 * math.pi
    return 0.4 * case["ws"] / (math.log(case["zm"] / case["z0"]) + psi)


def _end_to_end(case, wd, out, primary, base=None):
    import dataclasses

    from bldfm import parse_config_dict, run_bldfm_single

    U = case["ws"]
    nx, ny, dx, dy = case["nx"], case["ny"], case["dx"], case["dy"]
    xmax, ymax = nx * dx, ny * dy
    rl, ro = case["ref"]
    R = 6_371_000.0
    tx0, ty0 = case["fx"] * xmax, case["fy"] * ymax
    lat = rl + math.degrees(ty0 / R)
    lon = ro + math.degrees(tx0 / (R * math.cos(math.radians(rl))))
    dom = {"nx": nx, "ny": ny, "xmax": xmax, "ymax": ymax, "nz": case["nz"], "modes": [nx + nx % 2, ny + ny % 2],
           "ref_lat": rl, "ref_lon": ro}
    if case["halo"] == "third":
        dom["halo"] = xmax / 3
    cfg = parse_config_dict({
        "domain": dom, "towers": [{"name": "T", "lat": lat, "lon": lon, "z_m": case["zm"]}],
        # compass directions arrive as integers from YAML (`wind_dir: 270`)
        "met": dict({"mol": case["mol"], "wind_speed": U, "wind_dir": int(wd) if float(wd).is_integer() else wd},
                    **({"ustar": _ustar_for(case)} if case.get("forcing") == "ustar" else {"z0": case["z0"]})),
        "solver": {"closure": case["closure"], "footprint": True, "precision": "double"},
    })
    if base is not None:
        # the second run of the sweep on a configuration RE-BUILT from the first one around another origin (three cells
        # west, two south of the old one): the re-used tower object must be placed relative to the new origin
        sx, sy = -3 * dx, -2 * dy
        rl2 = rl + math.degrees(sy / R)
        ro2 = ro + math.degrees(sx / (R * math.cos(math.radians(rl))))
        cfg = dataclasses.replace(base, domain=dataclasses.replace(base.domain, ref_lat=rl2, ref_lon=ro2),
                                  met=dataclasses.replace(base.met, wind_dir=cfg.met.wind_dir))
        # where the tower's lat/lon lie as seen from the new origin (equirectangular, as the code documents)
        tx0 = R * math.radians(lon - ro2) * math.cos(math.radians(rl2))
        ty0 = R * math.radians(lat - rl2)
        out.label("second-run-on-reoriginated-config")
    try:
        if case.get("cached") and primary:
            # the same run answered from the Green's-function cache (stored by a first call, read back by the second)
            import shutil
            import tempfile

            from bldfm.cache import GreensFunctionCache

            from .. import env

            d = tempfile.mkdtemp(prefix="c08-cache-", dir=str(env.scratch()))
            try:
                cache = GreensFunctionCache(d)
                run_bldfm_single(cfg, cfg.towers[0], cache=cache)
                r = run_bldfm_single(cfg, cfg.towers[0], cache=cache)
            finally:
                shutil.rmtree(d, ignore_errors=True)
            out.label("served-from-cache")
        else:
            r = run_bldfm_single(cfg, cfg.towers[0])
    except Exception as e:
        out.bad(f"run_bldfm_single raised {type(e).__name__}: {e}")
        return cfg
    X, Y, _ = r["grid"]
    f = r["flx"]
    if not (np.shape(X) == np.shape(Y) == np.shape(f) == (ny, nx)):
        out.bad(f"result for a {ny}x{nx} (rows x columns) domain has footprint shape {np.shape(f)} on coordinate arrays of shape "
                f"{np.shape(X)}, {np.shape(Y)}{' (answer read back from the cache)' if case.get('cached') and primary else ''}")
        return cfg
    tx, ty = r["tower_xy"]
    if not (abs(tx - tx0) <= 1e-3 and abs(ty - ty0) <= 1e-3):
        out.bad(f"tower placed at {(tx0, ty0)} m by lat/lon is reported at {(tx, ty)}")
    Rm = min(tx, xmax - tx, ty, ymax - ty)
    pos = np.clip(f, 0, None)
    w = pos * ((X - tx) ** 2 + (Y - ty) ** 2 <= Rm**2)
    if w.sum() <= 0:
        if primary:
            out.label("no-mass-in-disc")
        return cfg
    cx, cy = (w * X).sum() / w.sum(), (w * Y).sum() / w.sum()
    bearing = math.degrees(math.atan2(cx - tx, cy - ty)) % 360
    dev = abs((bearing - wd + 180) % 360 - 180)
    frac = float(w.sum() / pos.sum())
    dist = math.hypot((cx - tx) / dx, (cy - ty) / dy)
    # share of the disc mass that lies behind the tower as seen from the centroid (direction taken from the data, not
    # from the claimed wind direction): a footprint has next to nothing there; mass wrapped around the periodic domain does
    back = float((w * (((X - tx) * (cx - tx) + (Y - ty) * (cy - ty)) < 0)).sum() / w.sum())
    if primary:
        out.detail = {"bearing": bearing, "dev": dev, "mass_fraction_in_disc": frac, "centroid_cells": dist,
                      "window_mass": float(f.sum()), "zeta": case["zm"] / case["mol"], "back": back}
    else:
        out.detail["second"] = {"dev": dev, "mass_fraction_in_disc": frac, "centroid_cells": dist, "window_mass": float(f.sum()), "back": back}
    if frac >= 0.5 and dist >= 3.0 and float(f.sum()) >= 0.8:
        if primary:
            out.nontrivial = True
            out.label("bearing-asserted")
        else:
            out.label("second-direction-asserted")
        if not dev <= 12.0:
            out.bad(f"footprint centroid lies at bearing {bearing:.1f} deg from the tower, wind comes from {wd:.1f} deg "
                    f"(deviation {dev:.1f} deg > 12; centroid {dist:.1f} cells away, {frac:.0%} of the mass in the disc"
                    f"{'' if primary else '; second run of a direction sweep at fixed met state'})")
    elif primary:
        out.label("bearing-not-asserted(unresolved)")
    return cfg
