"""C13 - the config-driven single run equals the explicit wind -> profiles -> source -> solver pipeline."""

import math
import os

import numpy as np
from hypothesis import strategies as st

from .. import gen, sut
from ..core import Outcome

ID = "C13"
LEVEL = "exploration"
R_EARTH = 6_371_000.0
RULE = (
    "Hypothesis draws configuration dictionaries: closure (OAAHOC only with ustar), precision, footprint, analytic, halo "
    "(absent/None/0/float), modes (absent/even pair), output_levels (absent/list incl. unsorted)/full_output, ref_lat/ref_lon present "
    "or absent, 1..3 towers of different heights placed by lat/lon, scalar or list forcing of 1..3 steps (ustar, z0, or both - z0 then takes precedence as documented -, physically "
    "consistent by construction), optional timestamps, surface_flux_shape, src_loc; a tower index, a time index and optionally a "
    "user-supplied flux array. Oracle (differential, same process, same thread setting => exact): run_bldfm_single(cfg, tower, step) for every step of the series in order vs "
    "compute_wind_fields -> vertical_profiles -> ideal_source -> steady_state_transport_solver called by hand with numbers read from "
    "the input dictionary (tower x,y first checked against an independent equirectangular formula to 1e-6 m); arrays and grids "
    "array_equal, timestamp/params/tower_name/tower_xy equal; if the hand pipeline raises, the interface must raise the same type. "
    "yaml.safe_dump(dict) -> load_config equals parse_config_dict(dict). Non-trivial = (>= 2 steps and index > 0) or (>= 2 towers and "
    "tower index > 0); distinct = canonical JSON."
)
ASSUMPTIONS = ["the low-level functions themselves are the subject of C01-C12; here only the wiring is compared, exactly"]
TOLERANCES = {"fields and grids": "array_equal", "tower x,y vs independent formula": "1e-6 m"}
BUDGET = {"quick": dict(examples=800, shards=1), "thorough": dict(examples=6000, shards=16)}


def warmup():
    sut.warm()


@st.composite
def _case(draw):
    nx, ny, nz = draw(st.integers(3, 12)), draw(st.integers(3, 12)), draw(st.integers(2, 8))
    d = {"nx": nx, "ny": ny, "xmax": draw(gen.fl(100.0, 1500.0)), "ymax": draw(gen.fl(100.0, 1500.0)), "nz": nz}
    k = draw(st.integers(0, 2))
    if k == 1:
        d["modes"] = [2 * draw(st.integers(1, 8)), 2 * draw(st.integers(1, 8))]
    elif k == 2:
        d["modes"] = [64, 32]
    k = draw(st.integers(0, 3))
    if k == 1:
        d["halo"] = None
    elif k == 2:
        d["halo"] = 0
    elif k == 3:
        d["halo"] = draw(gen.fl(10.0, 300.0))
    geo = draw(st.booleans())
    if geo:
        d["ref_lat"], d["ref_lon"] = draw(gen.fl(-60.0, 60.0)), draw(gen.fl(-180.0, 180.0))
    k = draw(st.integers(0, 2))
    if k == 1:
        d["output_levels"] = draw(st.lists(st.integers(0, nz), min_size=1, max_size=min(4, nz + 1), unique=True))
    elif k == 2:
        d["full_output"] = True
    ntw = draw(st.integers(1, 3))
    towers = []
    for t in range(ntw):
        zm = draw(gen.fl(1.5, 30.0))
        x, y = draw(gen.fl(0.0, 1.0)) * d["xmax"], draw(gen.fl(0.0, 1.0)) * d["ymax"]
        if geo:
            lat = d["ref_lat"] + math.degrees(y / R_EARTH)
            lon = d["ref_lon"] + math.degrees(x / (R_EARTH * math.cos(math.radians(d["ref_lat"]))))
        else:
            lat, lon = draw(gen.fl(-60.0, 60.0)), draw(gen.fl(-180.0, 180.0))
        # names and labels that LOOK numeric must stay strings on every route (YAML quotes them)
        towers.append({"name": draw(st.sampled_from([f"T{t}", f"{7 + t}", f"{t + 1}e3", f"0{t}", f"north{t}"])), "lat": lat, "lon": lon, "z_m": zm})
    nt = draw(st.integers(1, 3))
    aslist = nt > 1 or draw(st.booleans())
    closure = draw(st.sampled_from(["MOST", "MOSTM", "CONSTANT", "OAAHOC"]))
    zmax = max(t["z_m"] for t in towers)
    zmin = min(t["z_m"] for t in towers)
    ws = [draw(gen.fl(1.0, 8.0)) for _ in range(nt)]
    wd = [draw(gen.fl(0.0, 360.0)) for _ in range(nt)]
    mol = [draw(st.sampled_from([-1.0, 1.0])) * zmax * draw(gen.logfl(2.0, 1000.0)) for _ in range(nt)]
    if draw(st.integers(0, 3)) == 0:
        # one strongly stable step: an Obukhov length shorter than the tallest tower is high (z/L > 1 there)
        mol[draw(st.integers(0, nt - 1))] = zmax * draw(gen.fl(0.45, 0.95))
    sweep = nt > 1 and draw(st.integers(0, 2)) == 0  # a direction sweep: only wind_dir changes from step to step
    if sweep:
        ws, mol = [ws[0]] * nt, [mol[0]] * nt
    met = {"wind_speed": ws if aslist else ws[0], "wind_dir": wd if aslist else wd[0], "mol": mol if aslist else mol[0]}
    usez0 = closure != "OAAHOC" and draw(st.booleans())
    if usez0:
        worst = min(gen.psi_m(t["z_m"] / L) for t in towers for L in mol)
        z0max = zmin * math.exp(min(worst, 0.0) - 0.7)
        met["z0"] = z0max * draw(gen.logfl(0.01, 1.0))
        if draw(st.integers(0, 2)) == 0:
            # a measured friction velocity given next to the site's roughness length: documented rule, z0 takes precedence
            us = [0.4 * w / draw(gen.fl(3.0, 9.0)) for w in ws]
            met["ustar"] = us if aslist else us[0]
    else:
        if closure == "OAAHOC":
            us = [math.sqrt(0.0856 * 0.845 * w / draw(gen.fl(3.0, 8.0))) for w in ws]
        else:
            us = [0.4 * w / draw(gen.fl(3.0, 9.0)) for w in ws]
        if sweep:
            us = [us[0]] * nt
        met["ustar"] = us if aslist else us[0]
    if draw(st.booleans()):
        style = draw(st.sampled_from(["s", "hhmm", "iso", "num", "newest-first", "unpadded-run"]))
        lab = {"s": lambda i: f"s{i}", "hhmm": lambda i: f"{6 * (i + 1):02d}00", "iso": lambda i: f"2024-06-0{i + 1}T12:00",
               "num": lambda i: f"{i + 1}.5",
               # labels whose sort order is not the record order
               "newest-first": lambda i: f"2024-06-1{5 - i}T12:00", "unpadded-run": lambda i: f"run-{8 + i}"}[style]
        met["timestamps"] = [lab(i) for i in range(nt)] if aslist else [lab(0)]
    sol = {"closure": closure}
    if draw(st.booleans()):
        sol["precision"] = draw(st.sampled_from(["single", "double"]))
    if draw(st.booleans()):
        sol["footprint"] = draw(st.booleans())
    if draw(st.integers(0, 3)) == 0:
        sol["analytic"] = True
    if draw(st.booleans()):
        sol["surface_flux_shape"] = draw(st.sampled_from(["diamond", "circle", "point"]))
    if draw(st.booleans()):
        sol["src_loc"] = [draw(gen.fl(0.0, 1.0)) * d["xmax"], draw(gen.fl(0.0, 1.0)) * d["ymax"]]
    # whole-number quantities as integers, the way `xmax: 500`, `z_m: 10`, `wind_dir: 270`, `mol: -100` come out of YAML
    if draw(st.integers(0, 2)) == 0:
        d["xmax"], d["ymax"] = int(round(d["xmax"])), int(round(d["ymax"]))
        if isinstance(d.get("halo"), float):
            d["halo"] = int(round(d["halo"]))
        if not geo:  # towers were placed by lat/lon relative to the extents only when geo is on
            for t in towers:
                t["z_m"] = int(round(t["z_m"])) + 1
        def _ints(v):
            return [int(round(x)) for x in v] if isinstance(v, list) else int(round(v))
        met["wind_dir"] = _ints(met["wind_dir"])
        met["wind_speed"] = _ints(met["wind_speed"])
        met["mol"] = _ints(met["mol"])
    raw = {"domain": d, "towers": towers, "met": met, "solver": sol}
    case = {"raw": raw, "tower": draw(st.integers(0, ntw - 1)), "step": draw(st.integers(0, nt - 1)), "flux": None}
    if draw(st.integers(0, 2)) == 0:
        # the supplied array defines the horizontal grid; it need not be the configured nx x ny
        dny, dnx = draw(st.sampled_from([(0, 0), (0, 0), (1, 2), (-1, 0), (2, -1)]))
        case["flux"] = draw(gen.source(max(2, ny + dny), max(2, nx + dnx), kinds=("dense", "sparse")))
        # an emission map as it comes out of a single-precision file: both routes must treat it the same way
        case["flux_dtype"] = draw(st.sampled_from(["float64", "float64", "float64", "float32"]))
    case["standalone_tower"] = draw(st.integers(0, 3)) == 0
    return case


def strategy(tier):
    return _case()


def _hand(raw, ti, i, flux, xy):
    from bldfm.pbl_model import vertical_profiles
    from bldfm.solver import steady_state_transport_solver as S
    from bldfm.utils import compute_wind_fields, ideal_source

    d, tw, m, sol = raw["domain"], raw["towers"][ti], raw["met"], raw.get("solver", {})

    def g(k, dflt=None):
        return m[k][i] if isinstance(m.get(k), list) else m.get(k, dflt)

    u, v = compute_wind_fields(g("wind_speed", 5.0), g("wind_dir", 270.0))
    kw = dict(z0=m["z0"]) if m.get("z0") is not None else dict(ustar=g("ustar"))
    z, p = vertical_profiles(n=d["nz"], meas_height=tw["z_m"], wind=(u, v), mol=g("mol", 1e9),
                             closure=sol.get("closure", "MOST"), **kw)
    if flux is None:
        sl = sol.get("src_loc")
        flux = ideal_source((d["nx"], d["ny"]), (float(d["xmax"]), float(d["ymax"])),
                            src_loc=tuple(sl) if sl is not None else None, shape=sol.get("surface_flux_shape", "diamond"))
    if d.get("output_levels"):
        lv = d["output_levels"]
    elif d.get("full_output"):
        lv = list(range(d["nz"] + 1))
    else:
        lv = d["nz"]
    return S(srf_flx=flux, z=z, profiles=p, domain=(float(d["xmax"]), float(d["ymax"])), levels=lv,
             modes=tuple(d.get("modes", [512, 512])), meas_pt=xy, footprint=sol.get("footprint", False),
             analytic=sol.get("analytic", False), halo=d.get("halo"), precision=sol.get("precision", "single"))


def check_case(case):
    import yaml
    from bldfm import load_config, parse_config_dict, run_bldfm_single

    out = Outcome()
    raw, ti, i = case["raw"], case["tower"], case["step"]
    d, sol, m = raw["domain"], raw["solver"], raw["met"]
    flux = None if case["flux"] is None else np.asarray(case["flux"], float).astype(case.get("flux_dtype", "float64"))
    if flux is not None and flux.dtype == np.float32:
        out.label("flux=float32")
    nt = len(m["wind_speed"]) if isinstance(m["wind_speed"], list) else 1
    out.label("closure=" + sol["closure"], "footprint" if sol.get("footprint") else "dispersion",
              "analytic" if sol.get("analytic") else "numerical", ("z0-and-ustar-given" if "ustar" in m else "z0-forcing") if "z0" in m else "ustar-forcing",
              "halo=" + ("absent" if "halo" not in d else str(type(d["halo"]).__name__)),
              "levels=" + ("list" if d.get("output_levels") else "full" if d.get("full_output") else "default"),
              "flux=user" if flux is not None else "flux=ideal", "geo" if "ref_lat" in d else "no-geo",
              f"towers={len(raw['towers'])}", f"steps={nt}")
    try:
        cfg = parse_config_dict(raw)
    except Exception as e:
        out.bad(f"parse_config_dict rejected a valid configuration: {type(e).__name__}: {e}")
        return out

    # tower coordinates against an independent formula
    tw = raw["towers"][ti]
    if "ref_lat" in d:
        x = R_EARTH * (math.radians(tw["lon"]) - math.radians(d["ref_lon"])) * math.cos(math.radians(d["ref_lat"]))
        y = R_EARTH * (math.radians(tw["lat"]) - math.radians(d["ref_lat"]))
    else:
        x, y = 0.0, 0.0
    txy = (cfg.towers[ti].x, cfg.towers[ti].y)
    if not (abs(txy[0] - x) <= 1e-6 and abs(txy[1] - y) <= 1e-6):
        out.bad(f"tower local coordinates {txy} differ from the equirectangular formula {(x, y)}")

    import copy
    import dataclasses

    # the tower handed to the run: the configured object, or (one case in four) a stand-alone copy whose local
    # coordinates were corrected by hand - the run takes the measurement point from the object it is given
    tower_obj = cfg.towers[ti]
    if case.get("standalone_tower"):
        tower_obj = dataclasses.replace(tower_obj, x=txy[0] + 0.37 * float(d["xmax"]) / d["nx"], y=txy[1] - 1.25 * float(d["ymax"]) / d["ny"])
        txy = (tower_obj.x, tower_obj.y)
        out.label("standalone-tower-with-corrected-xy")
    cfg_before = copy.deepcopy(cfg)
    flux_before = None if flux is None else flux.copy()
    # every step of the series is run, in order, in this process (state kept between runs must not leak into a
    # later step); the drawn step i is the one whose metadata is examined below
    a = None
    for step in range(nt):
        try:
            aj = run_bldfm_single(cfg, tower_obj, met_index=step, surface_flux=flux)
            ea = None
        except Exception as e:
            aj, ea = None, e
        try:
            b = _hand(raw, ti, step, flux, txy)
            eb = None
        except Exception as e:
            b, eb = None, e
        if ea is not None or eb is not None:
            out.label("raised")
            if type(ea) is not type(eb):
                out.bad(f"step {step}: interface {'raised ' + type(ea).__name__ + ': ' + str(ea) if ea else 'returned'} but the hand "
                        f"pipeline {'raised ' + type(eb).__name__ + ': ' + str(eb) if eb else 'returned'}")
            out.nontrivial = False
            return out
        gb, cb, fb = b
        # (a step that overflows in both routes - strongly stable, fine grid - is NaN in both: the same result)
        if not (np.array_equal(aj["conc"], cb, equal_nan=True) and np.array_equal(aj["flx"], fb, equal_nan=True)):
            e = "shape" if np.shape(aj["flx"]) != np.shape(fb) else f"{np.abs(np.asarray(aj['flx']) - fb).max():.3e}"
            out.bad(f"run_bldfm_single(tower {ti}, step {step}) differs from the explicit pipeline (flux diff {e}; "
                    f"steps run so far in this process: {list(range(step + 1))})")
        if not all(np.array_equal(p, q) for p, q in zip(aj["grid"], gb)):
            out.bad(f"step {step}: grid differs from the explicit pipeline")
        if aj["conc"].dtype != cb.dtype:
            out.bad(f"step {step}: dtype {aj['conc'].dtype} vs {cb.dtype}")
        if step == i:
            a = aj
    if a["tower_name"] != tw["name"] or tuple(float(v) for v in a["tower_xy"]) != tuple(float(v) for v in txy):
        out.bad(f"result carries tower {a['tower_name']!r} {a['tower_xy']}, expected {tw['name']!r} {txy}")
    if cfg != cfg_before:
        out.bad("run_bldfm_single modified the configuration object it was given")
    if flux is not None and not np.array_equal(flux, flux_before):
        out.bad("run_bldfm_single modified the surface-flux array it was given")

    def g(k, dflt=None):
        return m[k][i] if isinstance(m.get(k), list) else m.get(k, dflt)

    want_ts = m["timestamps"][i] if "timestamps" in m else i
    if a["timestamp"] != want_ts:
        out.bad(f"timestamp {a['timestamp']!r}, expected {want_ts!r}")
    for k in ("ustar", "mol", "wind_speed", "wind_dir"):
        if a["params"].get(k) != g(k):
            out.bad(f"params[{k!r}] = {a['params'].get(k)!r}, expected {g(k)!r}")
    if "z0" in m and a["params"].get("z0") != m["z0"]:
        out.bad("params['z0'] not carried")

    # YAML file == dictionary
    path = "c13_cfg.yaml"
    with open(path, "w") as f:
        yaml.safe_dump(raw, f)
    try:
        c2 = load_config(path)
        if c2 != cfg:
            out.bad("load_config(yaml.safe_dump(dict)) != parse_config_dict(dict)")
    except Exception as e:
        out.bad(f"load_config raised {type(e).__name__}: {e}")
    finally:
        os.remove(path)

    out.nontrivial = (nt >= 2 and i > 0) or (len(raw["towers"]) >= 2 and ti > 0)
    return out
