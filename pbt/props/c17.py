"""C17 - tower geolocation: local metres <-> lat/lon are mutual inverses, well oriented,
and agree with great-circle distance/bearing for offsets of a few kilometres."""

import math

import numpy as np
from hypothesis import strategies as st

from .. import gen, oracles
from ..core import Outcome

ID = "C17"
LEVEL = "exploration"
RULE = (
    "Hypothesis draws a reference point with |lat| <= 60 and any longitude in [-180, 180], an offset distance 1 m .. 5 km "
    "(log-uniform) and a bearing in [0, 360) (plus the four cardinal directions); the target lat/lon is produced with the "
    "spherical destination formula (longitude not wrapped). Oracles: xy_to_latlon(latlon_to_xy(p)) == p to 1e-9 deg and "
    "latlon_to_xy(xy_to_latlon(x,y)) == (x,y) to 1e-6 m, for scalars, for 1-D and 2-D arrays and for mixed scalar/array and open-grid calls (results must broadcast to the element-wise ones); the reference maps to (0,0); east => x>0, "
    "north => y>0, with the orthogonal component small; hypot(x,y) within 0.1 % of the haversine distance and atan2(x,y) within "
    "0.1 deg of the initial great-circle bearing; TowerConfig.x,y after parse_config_dict equal the forward transform. "
    "Non-trivial = offset >= 10 m and bearing not a multiple of 90; distinct = canonical JSON."
)
ASSUMPTIONS = ["sphere of radius 6 371 000 m as the code documents", "targets east of a reference near 180 deg are given with unwrapped longitudes (> 180), as the spherical destination formula returns them; references at and next to +-180 are generated"]
TOLERANCES = {"round trip": "1e-9 deg / 1e-6 m", "distance": "0.1 %", "bearing": "0.1 deg"}
BUDGET = {"quick": dict(examples=6000, shards=1), "thorough": dict(examples=100000, shards=16)}


@st.composite
def _case(draw):
    ref_lat = draw(st.one_of(gen.spread(-60.0, 60.0, bins=8), gen.spread(-60.0, 60.0, bins=8), st.sampled_from([0.0, 60.0, -60.0, 45.0, -0.0005, 0.0005])))
    ref_lon = draw(st.one_of(gen.fl(-180.0, 180.0), st.sampled_from([0.0, 179.9, -179.9, 180.0, -180.0, 179.99, -179.99, 179.9995, -0.001, 0.001, -0.00001])))
    dist = draw(gen.spread(1.0, 5000.0, bins=7, log=True))
    bearing = draw(st.one_of(gen.spread(0.0, 359.999, bins=8), gen.spread(0.0, 359.999, bins=8), gen.spread(0.0, 359.999, bins=8),
                             st.sampled_from([0.0, 90.0, 180.0, 270.0])))
    return {"ref_lat": ref_lat, "ref_lon": ref_lon, "dist": dist, "bearing": bearing,
            "extra": draw(st.lists(st.tuples(gen.fl(-5000.0, 5000.0), gen.fl(-5000.0, 5000.0)), min_size=0, max_size=5))}


def strategy(tier):
    return _case()


def check_case(case):
    from bldfm.config_parser import latlon_to_xy, parse_config_dict
    from bldfm.plotting._geo import xy_to_latlon

    out = Outcome()
    rl, ro, d, b = case["ref_lat"], case["ref_lon"], case["dist"], case["bearing"]
    lat, lon = oracles.destination(rl, ro, b, d)
    octant = int(((b + 22.5) % 360) // 45)
    out.label(f"octant={octant}", "near-equator" if abs(rl) < 20 else "mid-latitude" if abs(rl) < 50 else "high-latitude",
              "dist<100m" if d < 100 else "dist>=100m")

    x, y = latlon_to_xy(lat, lon, rl, ro)
    x0, y0 = latlon_to_xy(rl, ro, rl, ro)
    if (x0, y0) != (0.0, 0.0):
        out.bad(f"reference origin maps to {(x0, y0)}, not (0, 0)")

    # round trips
    lat2, lon2 = xy_to_latlon(x, y, rl, ro)
    if not (abs(lat2 - lat) <= 1e-9 and abs(lon2 - lon) <= 1e-9):
        out.bad(f"lat/lon -> xy -> lat/lon: {(lat, lon)} -> {(x, y)} -> {(float(lat2), float(lon2))}")
    pts = [(x, y)] + [tuple(p) for p in case["extra"]]
    xs = np.array([p[0] for p in pts])
    ys = np.array([p[1] for p in pts])
    xs0, ys0 = xs.copy(), ys.copy()
    lats, lons = xy_to_latlon(xs, ys, rl, ro)  # array form
    if not (np.array_equal(xs, xs0) and np.array_equal(ys, ys0)):
        out.bad("xy_to_latlon modified the coordinate arrays passed to it")
        xs, ys = xs0, ys0
    if lats is xs or lons is ys or lats is ys or lons is xs:
        out.bad("xy_to_latlon returned one of its argument arrays")
    # 2-D arrays of scattered points (not a meshgrid): element-wise like everything else
    if len(pts) >= 2:
        m = len(pts) // 2 * 2
        x2 = xs0[:m].reshape(2, m // 2)
        y2 = ys0[:m].reshape(2, m // 2)
        la2d, lo2d = xy_to_latlon(x2, y2, rl, ro)
        la1d, lo1d = xy_to_latlon(xs0[:m].copy(), ys0[:m].copy(), rl, ro)
        if np.shape(la2d) != x2.shape or not (np.array_equal(np.ravel(la2d), la1d) and np.array_equal(np.ravel(lo2d), lo1d)):
            out.bad(f"xy_to_latlon on a {x2.shape} array of scattered points differs from the element-wise result")
        x2t, y2t = np.ascontiguousarray(x2.T), np.ascontiguousarray(y2.T)
        la2t, lo2t = xy_to_latlon(x2t, y2t, rl, ro)
        if np.shape(la2t) != x2t.shape or not (np.array_equal(la2t, np.asarray(la2d).T) and np.array_equal(lo2t, np.asarray(lo2d).T)):
            out.bad("xy_to_latlon on the transposed 2-D arrays is not the transposed result")
    # mixed forms ("scalars or arrays"): a transect at a fixed easting / northing, and an open grid.  Whatever
    # shapes come back must broadcast to the broadcast shape of the inputs and equal the element-wise results.
    if len(pts) >= 2:
        la_e, lo_e = xy_to_latlon(xs0.copy(), ys0.copy(), rl, ro)
        forms = [("scalar x, array y", float(xs0[0]), ys0.copy(), np.asarray(la_e), np.full(len(pts), lo_e[0])),
                 ("array x, scalar y", xs0.copy(), float(ys0[0]), np.full(len(pts), la_e[0]), np.asarray(lo_e)),
                 ("x[None, :], y[:, None]", xs0.copy()[None, :], ys0.copy()[:, None],
                  np.broadcast_to(np.asarray(la_e)[:, None], (len(pts), len(pts))),
                  np.broadcast_to(np.asarray(lo_e)[None, :], (len(pts), len(pts))))]
        for name, fx, fy, la_want, lo_want in forms:
            la_m, lo_m = xy_to_latlon(fx, fy, rl, ro)
            try:
                la_b = np.broadcast_to(np.asarray(la_m, dtype=float), la_want.shape)
                lo_b = np.broadcast_to(np.asarray(lo_m, dtype=float), lo_want.shape)
            except ValueError:
                out.bad(f"xy_to_latlon({name}) returns shapes {np.shape(la_m)}, {np.shape(lo_m)} that do not describe the "
                        f"{la_want.shape} points of the call")
                continue
            if not (np.allclose(la_b, la_want, rtol=0, atol=1e-12) and np.allclose(lo_b, lo_want, rtol=0, atol=1e-12)):
                out.bad(f"xy_to_latlon({name}) differs from the element-wise result: lat {np.ravel(la_b)[:6]} vs "
                        f"{np.ravel(la_want)[:6]}, lon {np.ravel(lo_b)[:6]} vs {np.ravel(lo_want)[:6]}")
        out.label("mixed-scalar-array-forms")
    same = np.array([p[0] for p in pts])
    la2, lo2 = xy_to_latlon(same, same, rl, ro)  # one array for both coordinates
    la3, lo3 = xy_to_latlon(same.copy(), same.copy(), rl, ro)
    if not (np.array_equal(la2, la3) and np.array_equal(lo2, lo3)):
        out.bad("xy_to_latlon(a, a, ...) differs from xy_to_latlon(a.copy(), a.copy(), ...)")
    if np.shape(lats) != xs.shape or np.shape(lons) != xs.shape:
        out.bad(f"array inverse returns shapes {np.shape(lats)}, {np.shape(lons)} for input {xs.shape}")
    else:
        for (px, py), la, lo in zip(pts, lats, lons):
            las, los = xy_to_latlon(px, py, rl, ro)  # scalar form
            if not (abs(las - la) <= 1e-12 and abs(los - lo) <= 1e-12):
                out.bad(f"scalar and array inverse disagree at {(px, py)}")
            bx, by = latlon_to_xy(float(la), float(lo), rl, ro)
            if not (abs(bx - px) <= 1e-6 and abs(by - py) <= 1e-6):
                out.bad(f"xy -> lat/lon -> xy: {(px, py)} -> {(float(la), float(lo))} -> {(bx, by)}")

    # orientation
    ex, ey = latlon_to_xy(rl, ro + 0.01, rl, ro)
    nx_, ny_ = latlon_to_xy(rl + 0.01, ro, rl, ro)
    if not (ex > 0 and abs(ey) <= 1e-9 * abs(ex)):
        out.bad(f"a point to the east maps to {(ex, ey)}")
    if not (ny_ > 0 and abs(nx_) <= 1e-9 * abs(ny_)):
        out.bad(f"a point to the north maps to {(nx_, ny_)}")

    # metric accuracy against the sphere
    hd = oracles.haversine(rl, ro, lat, lon)
    r = math.hypot(x, y)
    if not abs(r - hd) <= 1e-3 * hd + 1e-6:
        out.bad(f"local distance {r!r} m vs great-circle {hd!r} m (> 0.1 %) at ref {(rl, ro)}, bearing {b}")
    if d >= 5.0:
        gb = oracles.initial_bearing(rl, ro, lat, lon)
        lb = math.degrees(math.atan2(x, y)) % 360.0
        diff = abs((lb - gb + 180.0) % 360.0 - 180.0)
        if not diff <= 0.1:
            out.bad(f"local bearing {lb!r} vs great-circle initial bearing {gb!r} (diff {diff:.4f} deg > 0.1) at ref {(rl, ro)}, dist {d}")

    # the config parser attaches the same numbers to the tower
    cfg = parse_config_dict({
        "domain": {"nx": 4, "ny": 4, "xmax": 10.0, "ymax": 10.0, "nz": 2, "ref_lat": rl, "ref_lon": ro},
        "towers": [{"name": "A", "lat": lat, "lon": lon, "z_m": 3.0}, {"name": "O", "lat": rl, "lon": ro, "z_m": 3.0}],
        "met": {"ustar": 0.3},
    })
    # (float(): NumPy compares a float32 scalar with a Python float in single precision, which would hide a narrowed value)
    tx, ty = cfg.towers[0].x, cfg.towers[0].y
    if (float(tx), float(ty)) != (x, y) or (float(cfg.towers[1].x), float(cfg.towers[1].y)) != (0.0, 0.0):
        out.bad(f"TowerConfig local coordinates {(tx, ty)!r} differ from latlon_to_xy {(x, y)}")
    # ... and taking the tower's stored coordinates back gives its configured position
    la_t, lo_t = xy_to_latlon(tx, ty, rl, ro)
    if not (abs(float(la_t) - lat) <= 1e-9 and abs(float(lo_t) - lon) <= 1e-9):
        out.bad(f"tower configured at {(lat, lon)} -> stored local coordinates {(tx, ty)!r} -> {(float(la_t), float(lo_t))}")

    # coordinates that arrive single-precision-typed (a float32 column of a tower table): the transform works on the value
    # it is given, in double precision - the result is that of the same value passed as a Python float
    la32, lo32 = np.float32(lat), np.float32(lon)
    x32, y32 = latlon_to_xy(la32, lo32, rl, ro)
    xw, yw = latlon_to_xy(float(la32), float(lo32), rl, ro)
    if not (abs(float(x32) - xw) <= 1e-6 and abs(float(y32) - yw) <= 1e-6):
        out.bad(f"latlon_to_xy(np.float32 lat/lon) = {(float(x32), float(y32))} differs from the same values passed as Python "
                f"floats {(xw, yw)}")
    rl32, ro32 = np.float32(rl), np.float32(ro)
    x33, y33 = latlon_to_xy(lat, lon, rl32, ro32)
    xv, yv = latlon_to_xy(lat, lon, float(rl32), float(ro32))
    if not (abs(float(x33) - xv) <= 1e-6 and abs(float(y33) - yv) <= 1e-6):
        out.bad(f"latlon_to_xy with a np.float32 reference = {(float(x33), float(y33))} differs from the same reference passed "
                f"as Python floats {(xv, yv)}")

    # a configuration re-built around another origin (dataclasses.replace re-runs the placement): the towers it re-uses
    # are placed relative to the NEW origin
    import dataclasses

    rl2, ro2 = rl + 0.001, ro - 0.002
    cfg2 = dataclasses.replace(cfg, domain=dataclasses.replace(cfg.domain, ref_lat=rl2, ref_lon=ro2))
    ex2, ey2 = latlon_to_xy(lat, lon, rl2, ro2)
    if not (abs(float(cfg2.towers[0].x) - ex2) <= 1e-6 and abs(float(cfg2.towers[0].y) - ey2) <= 1e-6):
        out.bad(f"configuration re-built with origin {(rl2, ro2)}: tower stored at {(cfg2.towers[0].x, cfg2.towers[0].y)!r}, "
                f"its lat/lon are at {(ex2, ey2)} from that origin")

    out.nontrivial = d >= 10.0 and (b % 90.0) != 0.0
    return out
