"""C12 - a solve is a pure function of its arguments: call history, thread settings,
FFT-layer resets, wisdom-file state and precision do not matter.

Stateful search over histories of solves / thread changes / FFT-manager resets /
truncated wisdom files, against a model (first result per (spec, threads)) and a
reference computed in a fresh spawned single-threaded process."""

import os
import pickle
import subprocess
import sys

import numpy as np
from hypothesis import strategies as st
from hypothesis.stateful import RuleBasedStateMachine, precondition, rule

from .. import env, sut
from ..core import Falsified, Outcome

ID = "C12"
LEVEL = "exploration"
RULE = (
    "Histories (Hypothesis RuleBasedStateMachine, 25/50 steps) over an alphabet of 18 solve specifications (shapes 6x5, 8x8, 7x9, "
    "9x4; modes below/at/default; single and double precision (one twin pair on a fine grid where the shooting solutions grow by e^11); footprint and dispersion; single/multiple/unsorted levels; analytic; "
    "halo default/0/fractional; two specs differ from another only in the domain resp. the profiles, two more are near twins (8th digit) of other specs; the source array is one object per grid shape, refilled in place before every solve) each solvable in three representations of the same argument values (C / Fortran / transposed-view source, tuples or lists of profile arrays, Python ints, floats, NumPy scalars or persistent NumPy arrays for domain, halo, measurement point, levels, modes and background; no argument may be modified in place), and the operations set_threads(1..8), reset_fft_manager(), write-and-truncate the FFTW wisdom file "
    "then reset; and (at most twice per history) a solve, the same request with an argument type the compiled kernel may refuse - big-endian heights or extended-precision profiles, a refusal is accepted, a returned result judged like any other - and the first solve again, under the current or another thread setting. Model: the first result seen for (spec, threads) - every later result for the same key must be bit-identical; every "
    "result must agree with the same solve done as the only solve of a fresh spawned single-threaded process (one process per spec, which also repeats its solve after reset_fft_manager() and reports whether the repeat is bit-identical) to 1e-12 of the field maximum (double; "
    "1e-5 for single precision against its double-precision twin). Non-trivial = history with >= 2 thread settings, >= 1 reset and a "
    "repeat of a spec after a different shape was solved; distinct = canonical JSON of the step list."
)
ASSUMPTIONS = [
    "the specs keep the shooting growth of the highest retained mode below e^2.1 (G <= 8): with the original G = 2e4 a one-ulp difference between thread settings is amplified to 3e-12 of the field maximum, i.e. the property's 1e-12 would be a statement about rounding amplification, not about purity; the one exception is the footprint pair 18/19 (growth e^11, compared across threads at 1e-12 + 4096 eps G = 6e-8), which exists for the single-vs-double clause: storage rounding stays ~1e-7 of the maximum whatever the growth, while rounding the growing shooting solutions themselves to single precision does not",
    "thread interleavings inside numba/OpenMP/FFTW are sampled through thread counts and repetition, not owned by the harness",
    "the wisdom file is the one the FFT manager reads from the working directory (fftw_wisdom.pkl)",
]
TOLERANCES = {"same key": "bit-identical", "across threads / processes": "1e-12 * max|field| (double)", "single vs double": "1e-5 * max|field|"}
BUDGET = {"quick": dict(examples=200, shards=1), "thorough": dict(examples=400, shards=4, procs=4)}
STEP_COUNT = {"quick": 25, "thorough": 50}
CONFIRM_FRESH_PROCESS = True  # hidden process state is the subject: a failure is re-run in a fresh interpreter too


def _spec_inputs(k):
    """Deterministic solver arguments for spec k."""
    shapes = [(6, 5), (8, 8), (7, 9), (9, 4), (12, 12), (16, 16)]
    table = [
        # shape, modes, precision, footprint, levels, analytic, halo
        (0, (4, 4), "double", False, 3, False, 0.0),
        (0, (4, 4), "single", False, 3, False, 0.0),
        (1, (8, 8), "double", True, [1, 4], False, None),
        (1, (8, 8), "single", True, [1, 4], False, None),
        (2, (512, 512), "double", False, [5, 2, 0], False, 250.0),
        (2, (6, 4), "double", True, 2, False, 0.0),
        (3, (512, 512), "double", False, 4, True, None),
        (1, (4, 6), "double", False, [0, 5], False, 150.0),
        (3, (8, 4), "single", True, [2, 3], False, 0.0),
        (0, (512, 512), "double", True, 5, False, None),
        # same shape / modes / levels as spec 0 but another domain, resp. other profiles: guards against memoising on a partial key
        (0, (4, 4), "double", False, 3, False, 0.0),
        (0, (4, 4), "double", False, 3, False, 0.0),
        # near twins of specs 0 and 5: forcing / geometry changed in the 8th digit (a finite-difference sensitivity run)
        (0, (4, 4), "double", False, 3, False, 0.0),
        (2, (6, 4), "double", True, 2, False, 0.0),
        # fluxes of order 1e-8 (kg m-2 s-1), no background: double and its single-precision twin
        (1, (8, 8), "double", False, [1, 4], False, 0.0),
        (1, (8, 8), "single", False, [1, 4], False, 0.0),
        # default halo on 12x12 square cells = a 36x36 padded grid (threaded FFT plans differ from serial ones at such sizes)
        (4, (512, 512), "double", False, 3, False, None),
        (4, (512, 512), "double", False, [2, 4], True, None),
        # cells of 9 m x 7.5 m under the 5 m column: the shooting solutions grow by ~e^11 before they are combined.
        # Double precision absorbs that (rounding ~1e-11 of the maximum); its single-precision twin must still differ
        # by storage rounding only, which it does as long as the combination happens before the result is stored
        (1, (8, 8), "double", True, [1, 4], False, 0.0),
        (1, (8, 8), "single", True, [1, 4], False, 0.0),
        # the same with constant K on 1.4 m x 1.2 m cells (growth ~e^17, beyond -log(eps) of single precision): exists for the
        # single-vs-double clause only, which storage rounding satisfies at any growth
        (1, (8, 8), "double", True, [1, 4], False, 0.0),
        (1, (8, 8), "single", True, [1, 4], False, 0.0),
        # 16x16 cells with the default halo = 48x48 padded = 2303 non-mean modes: more than a thousand per thread for 2
        # threads, with a remainder (work split into per-thread blocks must not lose the tail)
        (5, (512, 512), "double", False, [2, 4], False, None),
    ]
    si, modes, prec, fp, lv, ana, halo = table[k]
    ny, nx = shapes[si]
    j, i = np.meshgrid(np.arange(ny), np.arange(nx), indexing="ij")
    kq = {1: 0, 3: 2, 12: 0, 13: 5, 15: 14, 19: 18, 21: 20}.get(k, k)  # a single-precision spec and its double-precision twin share the source
    q = np.cos(0.9 * i + 0.3 * j * j) + 0.2 * i + 0.15 * kq * np.sin(1.7 * j + kq)
    z = np.array([0.05, 0.5, 1.2, 2.2, 3.5, 5.0])
    u = 1.1 * np.log(z / 0.04) * (0.9 if not ana else 0 * z + 1)
    v = 0.6 * np.log(z / 0.04) * (1.0 if not ana else 0 * z + 1)
    if ana:
        u, v = np.full(6, 3.0), np.full(6, -1.5)
        K = np.full(6, 0.7)
    else:
        K = 0.4 * 0.3 * z
    if k in (20, 21):
        K = np.full(6, 0.6)  # height-independent diffusivity: the decay rate at the top node is the decay rate everywhere
    dscale = 1.5 if k == 10 else (1.0 + 3e-8) if k == 13 else 1.0
    if k == 11:
        u, K = 0.8 * u, 1.3 * K
    if k == 12:
        u, K = u * (1.0 + 1e-8), K * (1.0 - 2e-8)
    if k in (14, 15):
        q = (q + 0.8) * 1e-8
    cx, cy = (9.0, 7.5) if k in (18, 19) else (1.4, 1.2) if k in (20, 21) else (240.0, 240.0 if k in (16, 17, 22) else 180.0)
    return dict(q=q, z=z, profiles=(u, v, K, 0.7 * K, 1.2 * K), domain=(cx * nx * dscale, cy * ny), levels=lv, modes=modes,
                meas_pt=(cx * (nx // 3), cy * (ny // 2)) if fp else (0.0, 0.0), bg=0.0 if k in (14, 15) else 1.0, footprint=fp, analytic=ana,
                halo=halo, precision=prec)


NSPEC = 23
_QBUF = {}
_PERSIST = {}


class ArgumentMutated(Exception):
    pass
TWIN = {1: 0, 3: 2, 15: 14, 19: 18, 21: 20}  # single-precision spec -> its double-precision twin
SHAPE_OF = [0, 0, 1, 1, 2, 2, 3, 1, 3, 0, 0, 0, 0, 2, 1, 1, 4, 4, 1, 1, 1, 1, 5]
HIGH_GROWTH = (18, 19, 20, 21)  # rounding of the double-precision result is ~eps*e^10, not eps: compared at (1e-12 + 4096 eps e^11.1) = 6e-8 across threads


def _represent(a, rep):
    """The same argument VALUES in another representation (rep 1, 2): memory layout, container and scalar types."""
    if rep == 0:
        return a
    a = dict(a)

    def as_int_if_integral(v):
        return int(v) if v is not None and float(v).is_integer() else v

    if rep == 3:
        # a height grid as it comes out of a big-endian binary file: the same values; the compiled kernel may refuse it
        a["z"] = a["z"].astype(">f8")
        return a
    if rep == 4:
        a["profiles"] = tuple(np.asarray(p, dtype=np.longdouble) for p in a["profiles"])  # extended-precision profiles
        return a
    if rep == 1:
        a["q"] = np.asfortranarray(a["q"])
        a["domain"] = tuple(as_int_if_integral(v) for v in a["domain"])
        a["meas_pt"] = [as_int_if_integral(v) for v in a["meas_pt"]]
        a["halo"] = as_int_if_integral(a["halo"])
        a["modes"] = list(a["modes"])
        a["profiles"] = [np.array(p) for p in a["profiles"]]
        a["bg"] = int(a["bg"])
    else:
        a["q"] = np.ascontiguousarray(a["q"].T).T  # transposed view
        # (strided views of z / the profiles are NOT generated: the numba kernel rejects non-contiguous 1-D arrays with a
        #  TypingError - a loud failure outside the listed properties, recorded in DESIGN.md section 8.5)
        a["z"] = a["z"].copy()
        a["profiles"] = tuple(p.astype(float, copy=True) for p in a["profiles"])
        # array-valued arguments are persistent objects (one per spec), as a caller that loops over settings keeps
        # them: an in-place update inside the solver would silently move the tower / domain for the next call
        key = a["_k"]
        if key not in _PERSIST:
            _PERSIST[key] = {"domain": np.array(a["domain"], float), "meas_pt": np.array(a["meas_pt"], float),
                             "levels": np.array(np.atleast_1d(a["levels"])), "orig": None}
            _PERSIST[key]["orig"] = {n: _PERSIST[key][n].copy() for n in ("domain", "meas_pt", "levels")}
        a["domain"], a["meas_pt"] = _PERSIST[key]["domain"], _PERSIST[key]["meas_pt"]
        if np.ndim(a["levels"]) > 0:
            a["levels"] = _PERSIST[key]["levels"]
        a["halo"] = None if a["halo"] is None else np.float64(a["halo"])
        a["modes"] = (np.int64(a["modes"][0]), np.int64(a["modes"][1]))
        a["bg"] = np.float64(a["bg"])
    return a


def _solve(k, rep=0):
    from bldfm.solver import steady_state_transport_solver as S

    a = _spec_inputs(k)
    # the caller's flux array is ONE object per grid shape, refilled in place before every solve (a driver that
    # updates its emission map between runs does exactly this): the solver must read its current contents
    buf = _QBUF.setdefault(a["q"].shape, np.empty(a["q"].shape))
    buf[...] = a["q"]
    a["q"] = buf
    a["_k"] = k
    a = _represent(a, rep)
    before = {n: np.array(a[n], copy=True) for n in ("q", "z", "domain", "meas_pt") if isinstance(a[n], np.ndarray)}
    before.update({f"profiles[{i}]": p.copy() for i, p in enumerate(a["profiles"])})
    if isinstance(a["levels"], np.ndarray):
        before["levels"] = a["levels"].copy()
    g, c, f = S(a["q"], a["z"], a["profiles"], a["domain"], a["levels"], modes=a["modes"], meas_pt=a["meas_pt"],
                srf_bg_conc=a["bg"], footprint=a["footprint"], analytic=a["analytic"], halo=a["halo"], precision=a["precision"])
    now = dict(a)
    now.update({f"profiles[{i}]": p for i, p in enumerate(a["profiles"])})
    changed = [n for n, b in before.items() if not np.array_equal(np.asarray(now[n]), b)]
    if changed:
        raise ArgumentMutated(f"the solver modified its argument(s) {changed} in place (spec {k}, representation {rep})")
    return np.asarray(c), np.asarray(f)


_REF_SCRIPT = r"""
import sys, pickle
sys.path.insert(0, sys.argv[1]); sys.path.insert(0, sys.argv[2])
from pbt import env
env.setup(); env.import_bldfm()
from pbt.props import c12
k = int(sys.argv[4])
import numpy as np
first = c12._solve(k)                      # the reference: the first solve this process ever makes
from bldfm import fft_manager
fft_manager.reset_fft_manager()            # ... and the same solve once more after re-initialising the FFT layer
again = c12._solve(k)
same = all(a.dtype == b.dtype and np.array_equal(a, b) for a, b in zip(first, again))
diff = max(float(np.abs(np.asarray(a, float) - np.asarray(b, float)).max()) for a, b in zip(first, again))
pickle.dump((first, same, diff), open(sys.argv[3], "wb"))
sys.stdout.write("ok\n"); sys.stdout.flush()
env.hard_exit(0)
"""
_REF = None
_REF_RESET = {}  # spec -> (bit-identical, max diff) of 'solve, reset_fft_manager(), solve again' in the fresh process


def _ref_one(k):
    path = str(env.scratch() / f"c12_ref_{os.getpid()}_{k}.pkl")
    r = subprocess.run([sys.executable, "-c", _REF_SCRIPT, str(env.SRC), str(env.VERIF), path, str(k)], capture_output=True,
                       text=True, env=dict(os.environ, PYTHONHASHSEED=str(4242 + k)), timeout=900)  # fresh process, other hash salt
    if "ok" not in r.stdout:
        raise RuntimeError(f"reference process for spec {k} failed: " + r.stderr[-800:])
    with open(path, "rb") as f:
        out, same, diff = pickle.load(f)
    os.remove(path)
    _REF_RESET[k] = (same, diff)
    return out


def reference():
    """Result of every spec, each from its own fresh single-threaded process
    (the solve is the first and only one that process ever makes)."""
    global _REF
    if _REF is None:
        from concurrent.futures import ThreadPoolExecutor

        with ThreadPoolExecutor(max_workers=6) as ex:
            _REF = dict(zip(range(NSPEC), ex.map(_ref_one, range(NSPEC))))
    return _REF


def warmup():
    sut.warm()
    reference()


_PROCESS_OPS = []  # every operation applied in this process, across histories: hidden state may outlive a history


def _forget_plans():
    """Every history starts without FFTW's in-process planning knowledge (pyfftw.forget_wisdom): with estimated plans this
    changes nothing; if plans ever came to be chosen by measurement, each history would be a fresh draw of that choice
    instead of the whole process living with the first one."""
    try:
        import pyfftw

        pyfftw.forget_wisdom()
    except Exception:
        pass


class History:
    def __init__(self):
        env.reset_globals()
        _forget_plans()
        _PROCESS_OPS.append(["newhistory"])
        self.start = len(_PROCESS_OPS)
        self.first = {}
        self.steps = []
        self.threads = 1
        self.thread_settings = {1}
        self.resets = 0
        self.solved_shapes = []
        self.repeat_after_other = False
        self.wisdom_cuts = 0
        self.nsolves = 0

    def close(self):
        env.reset_globals()
        try:
            os.remove("fftw_wisdom.pkl")
        except OSError:
            pass

    def apply(self, op):
        from bldfm import config, fft_manager

        self.steps.append(op)
        _PROCESS_OPS.append(op)
        kind = op[0]
        if kind == "newhistory":
            env.reset_globals()
            _forget_plans()
            self.threads = 1
            return []
        if kind == "threads":
            config.NUM_THREADS = int(op[1])
            self.threads = int(op[1])
            self.thread_settings.add(self.threads)
            return []
        if kind == "reset":
            fft_manager.reset_fft_manager()
            self.resets += 1
            return []
        if kind == "wisdom":
            import pyfftw

            blob = pickle.dumps(pyfftw.export_wisdom())
            cut = int(op[1] * len(blob))
            with open("fftw_wisdom.pkl", "wb") as f:
                f.write(blob[:cut])
            fft_manager.reset_fft_manager()
            self.resets += 1
            self.wisdom_cuts += 1
            return []
        if kind == "solve":
            return self._solve(int(op[1]), int(op[2]) if len(op) > 2 else 0)
        raise ValueError(op)

    def _solve(self, k, rep=0):
        fails = []
        if rep:
            self.reps = getattr(self, "reps", 0) + 1
        try:
            c, f = _solve(k, rep)
        except ArgumentMutated as e:
            for v in _PERSIST.values():  # restore, so that the search can go on
                for n, o in v["orig"].items():
                    v[n][...] = o
            return [str(e)]
        except Exception as e:
            if rep >= 3:
                # an argument type the solver refuses loudly: no result to judge - but the refusal must leave no trace in
                # what later solves return (they are compared with their first occurrence as before)
                self.refused = getattr(self, "refused", 0) + 1
                return []
            return [f"solve(spec {k}) raised {type(e).__name__}: {e} after history {self._pretty()}"]
        self.nsolves += 1
        sh = SHAPE_OF[k]
        seen = [i for i, (s_, _) in enumerate(self.solved_shapes) if s_ == k]
        if seen and any(s2 != sh for _, s2 in self.solved_shapes[seen[-1] + 1:]):
            self.repeat_after_other = True
        self.solved_shapes.append((k, sh))
        key = (k, self.threads, rep)
        if key in self.first:
            c0, f0 = self.first[key]
            if not (c.dtype == c0.dtype and np.array_equal(c, c0) and np.array_equal(f, f0)):
                d = max(float(np.abs(c.astype(float) - c0).max()), float(np.abs(f.astype(float) - f0).max())) if c.shape == c0.shape else "shape"
                fails.append(f"spec {k} with {self.threads} thread(s): repeated call is not bit-identical to the first one "
                             f"(max diff {d}) after history {self._pretty()}")
        else:
            self.first[key] = (c.copy(), f.copy())
        rc, rf = reference()[k]
        same, rdiff = _REF_RESET.get(k, (True, 0.0))
        if not same:
            fails.append(f"spec {k}: in a fresh process, the same solve repeated after reset_fft_manager() is not bit-identical to "
                         f"the first one (max diff {rdiff:.3e})")
        single = c.dtype == np.float32
        rel = (1e-12 if k not in HIGH_GROWTH else (6e-8 if k < 20 else 1.2e-4)) if not single else (1e-6 if k < 20 else 1.2e-4)
        for name, a, b in (("conc", c, rc), ("flux", f, rf)):
            if a.shape != b.shape or a.dtype != b.dtype:
                fails.append(f"spec {k}: {name} has shape/dtype {a.shape}/{a.dtype}, fresh process gives {b.shape}/{b.dtype}")
                continue
            scale = float(np.abs(b).max())
            err = float(np.abs(a.astype(float) - b.astype(float)).max())
            if not err <= rel * scale:
                fails.append(f"spec {k} with {self.threads} thread(s): {name} differs from the same solve in a fresh "
                             f"single-threaded process by {err:.3e} (> {rel * scale:.3e}) after history {self._pretty()}")
        if k in TWIN:
            dc, df = reference()[TWIN[k]]
            for name, a, b in (("conc", c, dc), ("flux", f, df)):
                scale = float(np.abs(b).max())
                err = float(np.abs(a.astype(float) - b).max())
                if not err <= 1e-5 * scale:
                    fails.append(f"spec {k} (single precision) differs from its double-precision twin by {err:.3e} "
                                 f"(> 1e-5 of the field maximum {scale:.3e})")
        return fails

    def _pretty(self):
        return [f"{s[0]}{s[1] if len(s) > 1 else ''}" for s in self.steps[-12:]]

    def outcome(self, fails=()):
        out = Outcome()
        out.fail.extend(fails)
        out.nontrivial = len(self.thread_settings) >= 2 and self.resets >= 1 and self.repeat_after_other
        out.label(f"thread-settings={min(len(self.thread_settings), 4)}{'+' if len(self.thread_settings) >= 4 else ''}",
                  "with-reset" if self.resets else "no-reset", "wisdom-truncated" if self.wisdom_cuts else "wisdom-untouched",
                  "repeat-after-other-shape" if self.repeat_after_other else "no-such-repeat",
                  "other-representations" if getattr(self, "reps", 0) else "canonical-representation-only",
                  "refused-call-in-history" if getattr(self, "refused", 0) else "no-refused-call")
        return out


def machine(tier, stats, last_fail):
    class PurityMachine(RuleBasedStateMachine):
        def __init__(self):
            super().__init__()
            self.h = History()
            self.recorded = False
            self.odd = 0

        def _do(self, op):
            fails = self.h.apply(op)
            if fails:
                # a self-contained reproduction: everything this process did before the failing history, then the history
                case = {"prefix": [list(o) for o in _PROCESS_OPS[: self.h.start]], "steps": list(self.h.steps)}
                stats.record(case, self.h.outcome(fails))
                last_fail.clear()
                last_fail.update({"case": case, "fail": fails, "detail": {}})
                self.recorded = True
                raise Falsified("; ".join(fails))

        @rule(k=st.integers(0, NSPEC - 1))
        def solve(self, k):
            self._do(["solve", k])

        @rule(k=st.integers(0, NSPEC - 1), rep=st.integers(1, 2))
        def solve_other_representation(self, k, rep):
            self._do(["solve", k, rep])

        @precondition(lambda self: self.odd < 2)
        @rule(k=st.sampled_from([0, 4, 6, 16]), rep=st.sampled_from([3, 4]), n=st.sampled_from([1, 1, 4]))
        def solve_refused_representation(self, k, rep, n):
            # a solve, then the same request with an argument type the compiled kernel may refuse (big-endian heights,
            # extended-precision profiles) under some thread setting, then the first solve again
            self.odd += 1
            t = self.h.threads
            self._do(["solve", k])
            self._do(["threads", n])
            self._do(["solve", k])
            self._do(["solve", k, rep])
            self._do(["solve", k])
            self._do(["threads", t])
            self._do(["solve", k])

        @rule(k=st.integers(0, NSPEC - 1))
        def solve_twice(self, k):
            self._do(["solve", k])
            self._do(["solve", k])

        @rule(n=st.sampled_from([1, 2, 3, 4, 8, 1, 7, 8]))
        def set_threads(self, n):
            self._do(["threads", n])

        @rule(k=st.sampled_from([16, 17, 16, 22, 4, 6, 0, 22, 16]), n=st.sampled_from([8, 7, 8, 4, 2, 8]))
        def switch_threads_and_repeat(self, k, n):
            # the same solve before, between and after a change of the thread setting, without a reset in between:
            # whatever the FFT layer keeps from the previous setting must not leak into the next solve
            self._do(["solve", k])
            self._do(["threads", n])
            self._do(["solve", k])
            self._do(["threads", 1])
            self._do(["solve", k])
            self._do(["threads", n])
            self._do(["solve", k])

        @rule()
        def reset(self):
            self._do(["reset"])

        @rule(frac=st.floats(0.0, 1.0))
        def truncate_wisdom(self, frac):
            self._do(["wisdom", frac])

        def teardown(self):
            if not self.recorded and self.h.steps:
                stats.record({"steps": list(self.h.steps)}, self.h.outcome())
            stats.extra["history_steps"] = stats.extra.get("history_steps", 0) + len(self.h.steps)
            stats.extra["solves"] = stats.extra.get("solves", 0) + self.h.nsolves
            self.h.close()

    return PurityMachine


def check_case(case):
    if case.get("prefix"):
        hp = History()
        try:
            for op in case["prefix"]:
                if op[0] == "threads":
                    hp.apply(list(op))  # thread setting is reset at the start of each history anyway
                else:
                    hp.apply(list(op))
        finally:
            hp.close()
    h = History()
    try:
        fails = []
        for op in case["steps"]:
            fails = h.apply(list(op))
            if fails:
                break
        return h.outcome(fails)
    finally:
        h.close()
