"""C04 - linearity in (surface flux, background); background is a uniform offset;
footprints do not depend on the source values."""

import numpy as np
from hypothesis import strategies as st

from .. import gen, sut, tol
from ..core import Outcome

ID = "C04"
LEVEL = "exploration"
RULE = (
    "Hypothesis draws two sign-changing sources q1,q2 (delta/sparse/dense/smooth) on the same grid, scalars a,b in [-4,4], two "
    "backgrounds, 1..3 ascending levels, halo kind, mode counts, profiles (closures/free/const), numerical or analytic mode "
    "(analytic only with constant profiles), precision double. Oracles: S(a q1+b q2, a c1+b c2) == a S(q1,c1)+b S(q2,c2) for "
    "concentration and flux at every level; S(q,c)-S(q,0) == (c, 0) uniformly, in dispersion and in footprint mode; footprint results for two different source arrays of "
    "the same shape are bit-identical. Non-trivial = q1,q2 linearly independent and a*b != 0; distinct = canonical JSON."
)
ASSUMPTIONS = ["fields smaller than 1e-290 (double; 1e-30 in single precision) are not compared relatively (a shrunk thorough-tier report had coefficients a = 0, b = 2.2e-308 and a difference of 38 subnormal quanta)", "shooting growth bounded by exp(13.8) by construction", "levels ascending (ordering is C10's subject)"]
TOLERANCES = {"linearity": "(1e-12 + 4096*eps*G) * (|a| max|S1| + |b| max|S2| + max|S12|)", "footprint independence": "bit-identical", "single precision": "1e-5 * same scale"}
BUDGET = {"quick": dict(examples=1000, shards=1), "thorough": dict(examples=10000, shards=16)}


def warmup():
    sut.warm()


@st.composite
def _case(draw):
    analytic = draw(st.integers(0, 3)) == 0
    case = draw(gen.problem(kinds=("const",) if analytic else ("closure", "free", "const")))
    z, _ = gen.build_profiles(case["prof"])
    case["analytic"] = analytic
    case["halo"] = draw(gen.halo(case))
    px, py, _ = gen.pad_widths(case, case["halo"]["value"])
    case["modes"] = draw(gen.modes(case, px, py))
    case["levels"] = draw(gen.levels(len(z), 1, 3))
    case["q1"] = draw(gen.source(case["ny"], case["nx"]))
    case["q2"] = draw(gen.source(case["ny"], case["nx"]))
    case["a"] = draw(st.one_of(gen.fl(-4.0, 4.0), st.sampled_from([1.0, -1.0, 0.0, 2.0, 1e-9, -1e9, 2.0**-30, 2.0**30])))  # incl. fluxes in other units
    case["b"] = draw(st.one_of(gen.fl(-4.0, 4.0), st.sampled_from([1.0, -1.0, 0.0, 0.5])))
    case["c1"] = draw(st.sampled_from([0.0, 1.0, -3.0, 380.0, 400, 5]))  # ints stay ints in JSON
    case["c2"] = draw(st.sampled_from([0.0, 2.0, 17.0]))
    case["tower"] = draw(gen.tower(case))
    # single precision rounds the stored result, not the operator: linearity then holds to storage rounding
    case["precision"] = draw(st.sampled_from(["double", "double", "double", "single"]))
    case["bg_float32"] = draw(st.integers(0, 3)) == 0
    if case["precision"] == "single" and draw(st.integers(0, 2)) > 0:
        # no background: a large offset would dominate the storage rounding and hide everything else
        case["c1"], case["c2"] = 0.0, 0.0
    return case


def strategy(tier):
    return _case()


def check_case(case):
    out = Outcome()
    z, prof = gen.build_profiles(case["prof"])
    q1 = np.asarray(case["q1"], float)
    q2 = np.asarray(case["q2"], float)
    a, b, c1, c2 = case["a"], case["b"], case["c1"], case["c2"]
    t1, t2 = c1, c2  # the objects handed to the solver
    if case.get("bg_float32"):
        # the background as an element of a single-precision record (an np.float32 scalar): the value it has IS the
        # background; all arithmetic of the oracle is done on that value as a Python float
        t1, t2 = np.float32(c1), np.float32(c2)
        c1, c2 = float(t1), float(t2)
    dom = gen.domain_of(case)
    lv = case["levels"]
    kw = dict(modes=gen.modes_arg(case["modes"]), halo=case["halo"]["value"], precision=case.get("precision", "double"),
              analytic=case["analytic"])
    kx, ky = tol.max_wavenumbers(case["nx"], case["ny"], *gen.spacing_of(case))
    logG = 0.0 if case["analytic"] else tol.log_growth(z, prof, kx, ky)
    single = case.get("precision") == "single"
    rel = tol.rel_tol(logG, single)
    TINY = 1e-30 if single else 1e-290  # float32 leaves its normal range at 1.2e-38
    out.label(case.get("precision", "double"))
    if case.get("bg_float32"):
        out.label("background-np.float32")
    out.label("analytic" if case["analytic"] else "numerical", f"prof={case['prof']['kind']}",
              f"halo={case['halo']['kind']}", f"levels={len(lv)}")

    def run(q, c):
        _, cc, ff = sut.S(q, z, prof, dom, lv, srf_bg_conc=c, **kw)
        return sut.as3d(cc).astype(float), sut.as3d(ff).astype(float)

    # a solve of another request first (same grid, full spectrum, other source): the operator is a function of its
    # arguments, so nothing of it may show in what follows - it makes a leak from an earlier call reproducible per case
    sut.S(q2 + 1.0, z, prof, dom, lv, srf_bg_conc=7.0, **dict(kw, modes=(512, 512)))
    f1s, c1s = tol.natural_scales(q1, z, prof, c1)
    f2s, c2s = tol.natural_scales(q2, z, prof, c2)
    C1, F1 = run(q1, t1)
    C2, F2 = run(q2, t2)
    C12, F12 = run(a * q1 + b * q2, a * c1 + b * c2)
    for name, X1, X2, X12 in (("conc", C1, C2, C12), ("flux", F1, F2, F12)):
        s1, s2 = (c1s, c2s) if name == "conc" else (f1s, f2s)
        scale = abs(a) * max(tol.maxabs(X1), s1) + abs(b) * max(tol.maxabs(X2), s2) + tol.maxabs(X12)
        err = tol.maxabs(X12 - (a * X1 + b * X2))
        if not err <= rel * scale + TINY:
            out.bad(f"{name}: S(a q1+b q2, a c1+b c2) differs from a S(q1,c1)+b S(q2,c2) by {err:.3e} (> {rel * scale:.3e}); a={a}, b={b}")

    # homogeneity on its own: S(a q1, a c1) == a S(q1, c1), including amplitudes many decades away from one
    if a != 0.0:
        Ca, Fa = run(a * q1, a * c1)
        for name, X1, Xa, s1 in (("conc", C1, Ca, c1s), ("flux", F1, Fa, f1s)):
            err = tol.maxabs(Xa - a * X1)
            if not err <= rel * abs(a) * max(tol.maxabs(X1), s1) + TINY:
                out.bad(f"{name}: S(a q, a c) differs from a S(q, c) by {err:.3e} (> {rel * abs(a) * max(tol.maxabs(X1), s1):.3e}) for a = {a!r}")

    # background is a uniform offset of the concentration and leaves the flux alone
    C10, F10 = run(q1, 0.0)
    d = C1 - C10
    cs = max(tol.maxabs(C1), abs(c1), c1s)
    if not tol.maxabs(d - c1) <= rel * cs + TINY:
        out.bad(f"conc(q, bg={c1}) - conc(q, 0) is not the uniform offset {c1}: deviation {tol.maxabs(d - c1):.3e}")
    if not tol.maxabs(F1 - F10) <= rel * max(tol.maxabs(F1), f1s) + TINY:
        out.bad(f"flux changes with the background concentration by {tol.maxabs(F1 - F10):.3e}")

    # footprint: independent of the values of the source array
    mp = gen.meas_pt_of(case, case["tower"])
    fpa = sut.S(q1, z, prof, dom, lv, meas_pt=mp, footprint=True, **kw)
    fpb = sut.S(q2, z, prof, dom, lv, meas_pt=mp, footprint=True, **kw)
    for name, xa, xb in (("conc", fpa[1], fpb[1]), ("flux", fpa[2], fpb[2])):
        if not np.array_equal(xa, xb):
            out.bad(f"footprint {name} depends on the values of the source array (max diff {tol.maxabs(np.asarray(xa) - np.asarray(xb)):.3e})")

    # "does not depend on the values at all": a flux map with gaps (NaN) or overflow markers (inf) is as good a placeholder
    qn = q2.copy()
    qn.flat[0] = np.nan
    qn.flat[-1] = np.inf
    fpn = sut.S(qn, z, prof, dom, lv, meas_pt=mp, footprint=True, **kw)
    for name, xa, xb in (("conc", fpa[1], fpn[1]), ("flux", fpa[2], fpn[2])):
        if not np.array_equal(xa, xb):
            out.bad(f"footprint {name} depends on the values of the source array: a placeholder holding NaN / inf gives another result")
    # ... and the background is a uniform offset of the concentration footprint too, of either sign
    cb = c1 if c1 != 0.0 else (-2.5 if c2 == 0.0 else c2)
    fpc = sut.S(q2, z, prof, dom, lv, meas_pt=mp, footprint=True, srf_bg_conc=cb, **kw)
    dfp = np.asarray(fpc[1], float) - np.asarray(fpa[1], float)
    fsc = max(tol.maxabs(fpa[1]), abs(cb))
    if not tol.maxabs(dfp - cb) <= rel * fsc + TINY:
        out.bad(f"footprint mode: conc(bg={cb}) - conc(bg=0) is not the uniform offset {cb}: deviation {tol.maxabs(dfp - cb):.3e} "
                f"(field max {tol.maxabs(fpa[1]):.3e})")
    if not tol.maxabs(np.asarray(fpc[2], float) - np.asarray(fpa[2], float)) <= rel * tol.maxabs(fpa[2]) + TINY:
        out.bad(f"footprint mode: flux changes with the background concentration by "
                f"{tol.maxabs(np.asarray(fpc[2], float) - np.asarray(fpa[2], float)):.3e}")

    indep = np.linalg.matrix_rank(np.stack([q1.ravel(), q2.ravel()])) == 2
    out.nontrivial = bool(indep and a * b != 0.0)
    out.detail = {"logG": logG, "rel_tol": rel}
    return out
