"""C18 - NetCDF export/import is lossless and keeps every label attached to its data."""

import os

import numpy as np
from hypothesis import strategies as st

from .. import gen
from ..core import Outcome

ID = "C18"
LEVEL = "exploration"
RULE = (
    "Hypothesis draws a result set: towers 1..4 (distinct names, lat/lon/height each) x steps 1..4 x {2-D, 3-D with 2..4 levels} on "
    "grids of 2..5 cells per axis; each of the two fields independently one of: all finite doubles including negatives, zeros, "
    "subnormals and +-1e300 / float32 arrays as a single-precision run returns them / doubles that are all exactly representable in "
    "single precision / all zeros / small integers / dyadic fractions; unique string or integer timestamps; per-step met values with ustar, z0 or both "
    "forcing; kind=real instead runs the multi-tower driver on a tiny solver configuration. The set is assembled in the documented "
    "shape (tower -> list of per-step dicts, configuration order), saved, loaded back. Oracle: footprint[t,k] and concentration[t,k] "
    "array_equal to the inputs (as float64), x/y/z equal, time labels == str(timestamp), tower names in order with their own "
    "lat/lon/height, met values per step (ustar NaN under z0 forcing), .sel(tower=name) and .sel(time=label) return exactly that "
    "tower's / step's fields. Non-trivial = towers != steps (a transposed placement changes a shape) or >= 2 of each with all fields "
    "distinct; distinct = canonical JSON."
)
ASSUMPTIONS = ["results are keyed in configuration order (as the drivers return them)", "grids have at least 2 cells per axis"]
TOLERANCES = {"fields": "bit-identical (array_equal)", "coordinates/met": "exact"}
BUDGET = {"quick": dict(examples=250, shards=1), "thorough": dict(examples=1500, shards=16)}

_SPECIAL = [0.0, -0.0, 1.0, -1.0, 5e-324, -2.2250738585072014e-308, 1e300, -1e300, 1.7976931348623157e308, 3.141592653589793]


_KINDS = ["generic", "generic", "f32dtype", "f32exact", "zeros", "integers", "dyadic"]


def _field_values(n, kind="generic"):
    """Values of one field.  The two fields of a result draw their kind independently: a field of generic doubles
    next to one whose values all happen to be exactly representable in single precision (zeros, small integers,
    dyadic fractions, the values of a single-precision run) is an ordinary result set."""
    if kind == "zeros":
        el = st.sampled_from([0.0, 0.0, 0.0, -0.0])
    elif kind == "integers":
        el = st.integers(-1000, 1000).map(float)
    elif kind == "dyadic":
        el = st.integers(-4096, 4096).map(lambda k: k / 1024.0)
    elif kind in ("f32exact", "f32dtype"):
        el = st.one_of(st.floats(allow_nan=False, allow_infinity=False, width=32), st.floats(-10.0, 10.0, width=32),
                       st.sampled_from([0.0, -0.0, 1.0, 1.401298464324817e-45, 3.4028234663852886e38]))
    else:
        el = st.one_of(st.sampled_from(_SPECIAL), st.floats(allow_nan=False, allow_infinity=False), st.floats(-10.0, 10.0))
    return st.lists(el, min_size=n, max_size=n)


@st.composite
def _case(draw):
    if draw(st.integers(0, 9)) == 0:
        return {"kind": "real", "ntow": draw(st.integers(1, 3)), "nt": draw(st.integers(1, 3)),
                "three_d": draw(st.booleans()), "z0forcing": draw(st.sampled_from([False, True, "both"])),
                "precision": draw(st.sampled_from(["single", "double"]))}
    ntow, nt = draw(st.integers(1, 4)), draw(st.integers(1, 4))
    nx, ny = draw(st.integers(2, 5)), draw(st.integers(2, 5))
    nlev = draw(st.sampled_from([0, 0, 2, 3, 4]))  # 0 = 2-D output
    per = (nlev or 1) * ny * nx
    names = draw(st.lists(st.text("ABCDEFGHtower_-1234", min_size=1, max_size=8), min_size=ntow, max_size=ntow, unique=True))
    ts_kind = draw(st.sampled_from(["index", "string", "int"]))
    if ts_kind == "index":
        ts = list(range(nt))
    elif ts_kind == "string":
        ts = draw(st.lists(st.text("0123456789-:T ", min_size=1, max_size=16).filter(lambda s: s.strip() == s and s != ""),
                           min_size=nt, max_size=nt, unique=True))
    else:
        ts = draw(st.lists(st.integers(0, 10**9), min_size=nt, max_size=nt, unique=True))
    fk, ck = draw(st.sampled_from(_KINDS)), draw(st.sampled_from(_KINDS))
    if draw(st.integers(0, 5)) == 0:
        fk = ck = "f32dtype"  # what a single-precision run returns
    case = {
        "kind": "synthetic", "stale_file": draw(st.integers(0, 2)) == 0, "filename": draw(st.sampled_from(["c18_roundtrip.nc", "c18_roundtrip.nc", "fp_2024.06", "site_z2.5m", "export.v1.nc"])),
        "nx": nx, "ny": ny, "nlev": nlev, "names": names, "timestamps": ts, "flx_kind": fk, "conc_kind": ck,
        "dx": draw(gen.logfl(0.1, 100.0)), "dy": draw(gen.logfl(0.1, 100.0)),
        # heights in the order the levels were requested: ascending or not
        "zlev": draw(st.lists(gen.fl(0.01, 100.0), min_size=max(nlev, 1), max_size=max(nlev, 1), unique=True)),
        "towers": [[draw(gen.fl(-60.0, 60.0)), draw(gen.fl(-180.0, 180.0)), draw(gen.fl(1.0, 50.0))] for _ in range(ntow)],
        "z0forcing": draw(st.sampled_from([False, True, "both"])),
        "drop_first": draw(st.integers(0, 3)) == 0,  # the configuration has one more (earlier) step than is exported
        "met": [[draw(gen.fl(0.05, 1.0)), draw(gen.fl(-500.0, 500.0)), draw(gen.fl(0.1, 20.0)),
                 # bearings as they come: compass values, signed ones (-90), and unfolded ones (360, 450)
                 draw(st.one_of(gen.fl(0.0, 360.0), gen.fl(-360.0, 720.0), st.sampled_from([360.0, -90.0, 450.0, -0.0])))]
                for _ in range(nt)],
        "flx": [[draw(_field_values(per, fk)) for _ in range(nt)] for _ in range(ntow)],
        "conc": [[draw(_field_values(per, ck)) for _ in range(nt)] for _ in range(ntow)],
    }
    return case


def strategy(tier):
    return _case()


def _config(names, towers, z0forcing, met, ts, nx, ny, dx, dy, three_d=False, precision="double"):
    from bldfm.config_parser import parse_config_dict

    m = {"mol": [r[1] for r in met], "wind_speed": [r[2] for r in met], "wind_dir": [r[3] for r in met]}
    if z0forcing:
        m["z0"] = 0.05
    if not z0forcing or z0forcing == "both":  # "both": a measured friction velocity next to the site's roughness length
        m["ustar"] = [r[0] for r in met]
    if ts != list(range(len(met))):
        m["timestamps"] = ts
    dom = {"nx": nx, "ny": ny, "xmax": nx * dx, "ymax": ny * dy, "nz": 3, "modes": [4, 4], "halo": 0.0,
           "ref_lat": 0.0, "ref_lon": 0.0}
    if three_d:
        dom["output_levels"] = [3, 1, 2]  # requested order is not ascending
    return parse_config_dict({
        "domain": dom,
        "towers": [{"name": n, "lat": t[0], "lon": t[1], "z_m": t[2]} for n, t in zip(names, towers)],
        "met": m, "solver": {"footprint": True, "precision": precision},
    })


def _build_synthetic(case):
    nx, ny, nlev = case["nx"], case["ny"], case["nlev"]
    x = np.linspace(0, nx * case["dx"], nx, endpoint=False)
    y = np.linspace(0, ny * case["dy"], ny, endpoint=False)
    zl = np.asarray(case["zlev"], float)
    Z, Y, X = np.meshgrid(zl, y, x, indexing="ij")
    grid = (np.squeeze(X), np.squeeze(Y), np.squeeze(Z)) if nlev == 0 else (X, Y, Z)
    shape = (ny, nx) if nlev == 0 else (nlev, ny, nx)
    old = case.get("float32")  # replay files written before the per-field kinds
    fdt = np.float32 if (case.get("flx_kind") == "f32dtype" or old) else np.float64
    cdt = np.float32 if (case.get("conc_kind") == "f32dtype" or old) else np.float64
    met, ts, off = case["met"], case["timestamps"], 0
    if case.get("drop_first") and ts != list(range(len(ts))):
        # configured series = one extra step in front; only steps 1.. are exported
        met = [[0.2, -33.0, 1.5, 10.0]] + met
        ts = [("extra-step" if isinstance(ts[0], str) else -7)] + ts
        off = 1
    cfg = _config(case["names"], case["towers"], case["z0forcing"], met, ts, nx, ny, case["dx"], case["dy"])
    results = {}
    with np.errstate(over="ignore"):
        for k, name in enumerate(case["names"]):
            steps = []
            for t in range(len(case["timestamps"])):
                st_ = cfg.met.get_step(t + off)
                steps.append({
                    "grid": grid,
                    "flx": np.asarray(case["flx"][k][t], float).reshape(shape).astype(fdt),
                    "conc": np.asarray(case["conc"][k][t], float).reshape(shape).astype(cdt),
                    "tower_name": name, "tower_xy": (cfg.towers[k].x, cfg.towers[k].y),
                    "timestamp": st_["timestamp"], "params": st_,
                })
            results[name] = steps
    return cfg, results, x, y, (zl if nlev else None)


def _build_real(case):
    from bldfm.interface import run_bldfm_multitower

    ntow, nt = case["ntow"], case["nt"]
    names = [f"T{k}" for k in range(ntow)]
    towers = [[0.0001 * k, 0.0002 * k, 3.0 + k] for k in range(ntow)]
    met = [[0.3 + 0.05 * t, -100.0 - 20 * t, 3.0 + t, 200.0 + 35.0 * t] for t in range(nt)]
    ts = [f"2024-05-0{t + 1}" for t in range(nt)]
    cfg = _config(names, towers, case["z0forcing"], met, ts, 4, 5, 30.0, 20.0, three_d=case["three_d"], precision=case["precision"])
    results = run_bldfm_multitower(cfg)
    first = results[names[0]][0]
    X, Y, Z = first["grid"]
    if case["three_d"]:
        return cfg, results, X[0, 0, :], Y[0, :, 0], Z[:, 0, 0]
    return cfg, results, X[0, :], Y[:, 0], None


def check_case(case):
    from bldfm.io import load_footprints_from_netcdf, save_footprints_to_netcdf

    out = Outcome()
    cfg, results, x, y, zl = _build_synthetic(case) if case["kind"] == "synthetic" else _build_real(case)
    names = list(results.keys())
    ntow, nt = len(names), len(results[names[0]])
    three_d = zl is not None
    out.label(case["kind"], f"towers={ntow}", f"steps={nt}", "3-D" if three_d else "2-D",
              ("z0-and-ustar" if case["z0forcing"] == "both" else "z0-forcing") if case["z0forcing"] else "ustar-forcing")
    if case["kind"] == "synthetic":
        out.label(f"flx-{case.get('flx_kind', 'generic')}", f"conc-{case.get('conc_kind', 'generic')}",
                  "ts=" + type(case["timestamps"][0]).__name__)
    path = "c18_roundtrip.nc"
    if os.path.exists(path):
        os.remove(path)
    import copy

    snap = {n_: [(r["flx"].copy(), r["conc"].copy(), r["timestamp"], dict(r["params"])) for r in lst] for n_, lst in results.items()}
    cfg_before = copy.deepcopy(cfg)
    # the file is written where, and under the name, the caller says: another export saved afterwards under a sibling
    # name (same stem up to the last dot) must leave this one alone
    fname = case.get("filename", "c18_roundtrip.nc")
    sibling = {"c18_roundtrip.nc": "c18_roundtrip_b.nc", "fp_2024.06": "fp_2024.07", "site_z2.5m": "site_z2.0m",
               "export.v1.nc": "export.v2.nc"}[fname]
    for f_ in (fname, sibling):
        if os.path.exists(f_):
            os.remove(f_)
    path = fname
    out.label("filename=" + fname)
    try:
        if case.get("stale_file"):
            # an earlier export already sits under that name: saving again replaces it
            stale = {n_: [dict(r, flx=np.asarray(r["flx"]) * 0 + 5.0, conc=np.asarray(r["conc"]) * 0 - 5.0) for r in lst]
                     for n_, lst in results.items()}
            save_footprints_to_netcdf(stale, cfg, path)
            out.label("target-file-existed")
        save_footprints_to_netcdf(results, cfg, path)
        other = {n_: [dict(r, flx=np.asarray(r["flx"]) * 0 - 1.0, conc=np.asarray(r["conc"]) * 0 + 2.0) for r in lst]
                 for n_, lst in results.items()}
        save_footprints_to_netcdf(other, cfg, sibling)
        ds = load_footprints_from_netcdf(path)
    except Exception as e:
        out.bad(f"save/load raised {type(e).__name__}: {e}")
        return out
    if not os.path.exists(fname):
        out.bad(f"save_footprints_to_netcdf(..., {fname!r}) did not create a file of that name (directory now holds "
                f"{sorted(f for f in os.listdir('.') if f.startswith(fname.split('.')[0]))})")
    if cfg != cfg_before or list(results.keys()) != list(snap.keys()) or any(
            not (np.array_equal(r["flx"], b[0], equal_nan=True) and np.array_equal(r["conc"], b[1], equal_nan=True)
                 and r["timestamp"] == b[2] and r["params"] == b[3])
            for n_ in snap for r, b in zip(results[n_], snap[n_])):
        out.bad("save_footprints_to_netcdf modified the results / configuration it was given")
    try:
        ds.load()
        fp = ds["footprint"].values
        cc = ds["concentration"].values
        want_shape = (nt, ntow) + results[names[0]][0]["flx"].shape
        if fp.shape != want_shape or cc.shape != want_shape:
            out.bad(f"stored footprint has shape {fp.shape}, expected (time, tower, ...) = {want_shape}")
            return out
        for k, name in enumerate(names):
            for t in range(nt):
                r = results[name][t]
                if not np.array_equal(fp[t, k], np.asarray(r["flx"], np.float64)):
                    out.bad(f"footprint[time {t}, tower {k}] is not the saved field of tower {name!r} at step {t}")
                if not np.array_equal(cc[t, k], np.asarray(r["conc"], np.float64)):
                    out.bad(f"concentration[time {t}, tower {k}] is not the saved field of tower {name!r} at step {t}")
        if not (np.array_equal(ds["x"].values, x) and np.array_equal(ds["y"].values, y)):
            out.bad("x / y coordinates changed in the round trip")
        if three_d and not np.array_equal(ds["z"].values, zl):
            out.bad(f"z coordinate {ds['z'].values.tolist()} != {np.asarray(zl).tolist()}")
        labels = [str(v) for v in ds["time"].values]
        want_labels = [str(r["timestamp"]) for r in results[names[0]]]
        if labels != want_labels:
            out.bad(f"time labels {labels} != {want_labels}")
        if [str(v) for v in ds["tower"].values] != names:
            out.bad(f"tower names {[str(v) for v in ds['tower'].values]} != {names}")
        for k, tw in enumerate(cfg.towers):
            got = (float(ds["tower_lat"].values[k]), float(ds["tower_lon"].values[k]), float(ds["tower_z"].values[k]))
            if got != (float(tw.lat), float(tw.lon), float(tw.z_m)):
                out.bad(f"tower {names[k]!r} carries lat/lon/z {got}, configured {(tw.lat, tw.lon, tw.z_m)}")
        for t in range(nt):
            p = results[names[0]][t]["params"]
            for key in ("mol", "wind_speed", "wind_dir"):
                if float(ds[key].values[t]) != float(p[key]):
                    out.bad(f"{key}[{t}] = {float(ds[key].values[t])!r}, expected {p[key]!r}")
            u = float(ds["ustar"].values[t])
            if p.get("ustar") is None:
                if not np.isnan(u):
                    out.bad(f"ustar[{t}] = {u!r} under z0 forcing (no friction velocity was supplied; expected NaN)")
            elif u != float(p["ustar"]):
                out.bad(f"ustar[{t}] = {u!r}, expected {p['ustar']!r}")
        # label-based selection
        for k, name in enumerate(names):
            try:
                sel = ds.sel(tower=name)["footprint"].values
            except KeyError:
                out.bad(f".sel(tower={name!r}) fails: tower names in the file are {[str(v) for v in ds['tower'].values]}")
                continue
            if not all(np.array_equal(sel[t], np.asarray(results[name][t]["flx"], np.float64)) for t in range(nt)):
                out.bad(f".sel(tower={name!r}) does not return that tower's fields")
        for t, lab in enumerate(want_labels):
            try:
                sel = ds.sel(time=lab)["concentration"].values
            except KeyError:
                out.bad(f".sel(time={lab!r}) fails: the label of exported step {t} is not in the file (time labels {labels})")
                continue
            if not all(np.array_equal(sel[k], np.asarray(results[n_][t]["conc"], np.float64)) for k, n_ in enumerate(names)):
                out.bad(f".sel(time={lab!r}) does not return that step's fields")
    finally:
        ds.close()
        if os.path.exists(path):
            os.remove(path)
    flat = [np.asarray(results[n_][t]["flx"]).tobytes() for n_ in names for t in range(nt)]
    distinct = len(set(flat)) == len(flat)
    out.nontrivial = (ntow != nt) or (ntow >= 2 and nt >= 2 and distinct)
    return out
