"""C07 - the PDE's symmetries: mirror in x / y, axis swap, length and velocity similarity."""

import numpy as np
from hypothesis import strategies as st

from .. import gen, oracles, sut, tol
from ..core import Outcome

ID = "C07"
LEVEL = "exploration"
RULE = (
    "Hypothesis draws free profiles with independent Kx != Ky != Kz and oblique/turning winds (also closures and constants), "
    "non-square grids nx != ny with dx != dy, mode counts below/at/above/default, 1..2 levels, a source, an on-grid tower, "
    "footprint or dispersion (measurement point at the origin or on a grid node), and scale factors s,a = 2^k (|k| up to 27, and up to 80 for lengths / 100 for velocities) or arbitrary in [1e-7,1e7]; in a third of the cases the two similarity relations are also checked in single precision with power-of-two factors (which commute with storage rounding, so the double-precision tolerance applies). Oracles: (1) x-mirror and "
    "(2) y-mirror of the problem (source mirrored about cell 0 on the periodic domain, that wind component negated, tower mirrored) "
    "give mirrored fields - compared on the Fourier components strictly inside the retained band |k| < min(modes, N)/2 (the property "
    "excepts Nyquist components); (3) transposed problem (source.T, (u,v),(Kx,Ky),(xmax,ymax),(nlx,nly), tower swapped) gives "
    "transposed fields; (4) all lengths and all K times s leave conc and flux unchanged; (5) winds and K times a leave the flux "
    "unchanged and divide conc (and background) by a. Non-trivial = Kx != Ky, u*v != 0 at the top node and nx != ny or dx != dy; "
    "distinct = canonical JSON."
)
ASSUMPTIONS = [
    "mirrors about cell 0 are checked with halo=0 and compared in-band; mirrors about the window centre are checked with any halo whenever the mirrored axis has an odd padded size with clamped modes (symmetric retained set => exact); transpose and similarity with any halo",
    "shooting growth bounded by exp(13.8) by construction",
]
TOLERANCES = {"all": "(1e-12 + 4096*eps*G) * max|field| (spectral comparisons: * max|spectrum|)"}
BUDGET = {"quick": dict(examples=900, shards=1), "thorough": dict(examples=8000, shards=16)}


def warmup():
    sut.warm()


@st.composite
def _case(draw):
    case = draw(gen.problem(kinds=("free", "free", "closure", "const"), square_cells=0.1))
    z, _ = gen.build_profiles(case["prof"])
    case["halo"] = draw(gen.halo(case))
    px, py, _ = gen.pad_widths(case, case["halo"]["value"])
    case["modes_halo"] = draw(gen.modes(case, px, py))
    case["modes"] = draw(gen.modes(case))
    case["levels"] = draw(gen.levels(len(z), 1, 2))
    case["q"] = draw(gen.source(case["ny"], case["nx"]))
    case["tower"] = draw(gen.tower(case))
    case["footprint"] = draw(st.booleans())
    case["bg"] = draw(st.sampled_from([0.0, 2.0]))
    pw = st.integers(-6, 6).map(lambda k: float(2.0**k))
    wide = st.integers(-27, 27).map(lambda k: float(2.0**k))  # several decades: 7e-9 .. 1e8
    # powers of two scale every intermediate exactly, so the relations hold to rounding however large the factor:
    # any absolute velocity / length scale hidden in the solve (a cut-off, a floor, an epsilon) shows up far out
    huge_s = st.integers(28, 80).flatmap(lambda k: st.sampled_from([float(2.0**k), float(2.0**-k)]))
    huge_a = st.integers(28, 100).flatmap(lambda k: st.sampled_from([float(2.0**k), float(2.0**-k)]))
    case["s"] = draw(st.one_of(pw, wide, huge_s, gen.logfl(0.01, 100.0), gen.logfl(1e-7, 1e7)))
    case["a"] = draw(st.one_of(pw, wide, huge_a, gen.logfl(0.01, 100.0), gen.logfl(1e-7, 1e7)))
    # single precision: power-of-two factors commute with every rounding, storage rounding included, so the two
    # relations hold as tightly as in double precision (velocity factors bounded so that conc/a stays a float32)
    if draw(st.integers(0, 2)) == 0:
        case["single"] = {"s": draw(st.integers(1, 80).flatmap(lambda k: st.sampled_from([float(2.0**k), float(2.0**-k)]))),
                          "a": draw(st.integers(1, 60).flatmap(lambda k: st.sampled_from([float(2.0**k), float(2.0**-k)])))}
    case["recentre"] = draw(st.booleans())  # dispersion runs re-centred on the (on-grid) tower
    return case


def strategy(tier):
    return _case()


def _band(n, m):
    """indices (fftfreq order) strictly inside the retained band on an axis of n cells with m modes."""
    k = np.fft.fftfreq(n, 1.0 / n)
    return np.abs(k) < min(m, n) / 2.0


def check_case(case):
    out = Outcome()
    z, prof = gen.build_profiles(case["prof"])
    u, v, Kx, Ky, Kz = prof
    q0 = np.asarray(case["q"], float)
    ny, nx = q0.shape
    dom = gen.domain_of(case)
    dx, dy = gen.spacing_of(case)
    lv = case["levels"]
    im, jm = case["tower"]
    fpm = case["footprint"]
    bg = case["bg"]
    modes = gen.modes_arg(case["modes"])
    kxm, kym = tol.max_wavenumbers(nx, ny, dx, dy)
    logG = tol.log_growth(z, prof, kxm, kym)
    rel = tol.rel_tol(logG)
    out.label(f"prof={case['prof']['kind']}", "footprint" if fpm else "dispersion", f"halo={case['halo']['kind']}",
              "s=pow2" if np.log2(case["s"]).is_integer() else "s=arbitrary")

    def run(q, prof_, dom_, modes_, tower, halo, z_=z, bg_=bg, recentre=False, precision="double"):
        ddx, ddy = dom_[0] / q.shape[1], dom_[1] / q.shape[0]
        # (re-centred dispersion output is registered relative to the tower: only the similarity relations, which
        #  keep the geometry, are checked in that mode; mirrors and the axis swap use the un-shifted field)
        mp = (tower[0] * ddx, tower[1] * ddy) if (fpm or recentre) else (0.0, 0.0)
        _, c, f = sut.S(q, z_, prof_, dom_, lv, modes=modes_, meas_pt=mp, srf_bg_conc=bg_, footprint=fpm,
                        halo=halo, precision=precision)
        return sut.as3d(c), sut.as3d(f)

    fs0, cs0 = (0.0, 0.0) if fpm else tol.natural_scales(q0, z, prof, bg)  # floors for dispersion fields only
    c0, f0 = run(q0, prof, dom, modes, (im, jm), 0.0)

    # ---- mirrors (halo = 0), compared inside the retained band
    bandx = _band(nx, modes[0])
    bandy = _band(ny, modes[1])
    band = bandy[:, None] & bandx[None, :]
    ix = (-np.arange(nx)) % nx
    iy = (-np.arange(ny)) % ny
    for axis, qm, profm, tw, back in (
        ("x", q0[:, ix], (-u, v, Kx, Ky, Kz), ((-im) % nx, jm), lambda a: a[:, :, ix]),
        ("y", q0[iy, :], (u, -v, Kx, Ky, Kz), (im, (-jm) % ny), lambda a: a[:, iy, :]),
    ):
        cm, fm = run(qm, profm, dom, modes, tw, 0.0)
        for name, a, b in (("conc", c0, back(cm)), ("flux", f0, back(fm))):
            A = np.fft.fft2(a, axes=(1, 2)) * band
            B = np.fft.fft2(b, axes=(1, 2)) * band
            scale = max(tol.maxabs(np.fft.fft2(a, axes=(1, 2))), (cs0 if name == "conc" else fs0) * nx * ny, 1e-300)
            err = tol.maxabs(A - B)
            if not err <= rel * scale:
                out.bad(f"{axis}-mirror: {name} of the mirrored problem is not the mirrored {name} "
                        f"(in-band spectral difference {err:.3e} > {rel * scale:.3e}; grid {nx}x{ny}, modes {modes})")

    # ---- transpose, with the case's halo
    hv = case["halo"]["value"]
    mh = gen.modes_arg(case["modes_halo"])
    ch, fh = run(q0, prof, dom, mh, (im, jm), hv)
    ct, ft = run(q0.T.copy(), (v, u, Ky, Kx, Kz), (dom[1], dom[0]), (mh[1], mh[0]), (jm, im), hv)
    for name, a, b in (("conc", ch, ct.transpose(0, 2, 1)), ("flux", fh, ft.transpose(0, 2, 1))):
        scale = max(tol.maxabs(a), abs(bg), cs0 if name == "conc" else fs0)
        err = tol.maxabs(a - b)
        if not err <= rel * scale:
            out.bad(f"axis swap: {name} of the transposed problem is not the transposed {name} ({err:.3e} > {rel * scale:.3e}; halo {hv}, modes {mh})")

    # ---- ... and of the dispersion run re-centred on the tower (the shift along each axis is that axis' own: a non-square
    #      domain tells the two apart)
    if not fpm and nx % 2 == 0 and ny % 2 == 0:
        out.label("axis-swap-on-recentred-dispersion")
        cr1, fr1 = run(q0, prof, dom, mh, (im, jm), hv, recentre=True)
        cr2, fr2 = run(q0.T.copy(), (v, u, Ky, Kx, Kz), (dom[1], dom[0]), (mh[1], mh[0]), (jm, im), hv, recentre=True)
        for name, a, b in (("conc", cr1, cr2.transpose(0, 2, 1)), ("flux", fr1, fr2.transpose(0, 2, 1))):
            scale = max(tol.maxabs(a), abs(bg), cs0 if name == "conc" else fs0)
            err = tol.maxabs(a - b)
            if not err <= rel * scale:
                out.bad(f"axis swap of the re-centred dispersion run: {name} of the transposed problem is not the transposed {name} "
                        f"({err:.3e} > {rel * scale:.3e}; domain {dom}, tower cell {(im, jm)}, halo {hv})")

    # ---- mirrors about the window centre with the case's halo: exact whenever the retained wavenumber set of the
    #      mirrored axis is symmetric (odd padded size, modes clamped to it), so no unpaired Nyquist component exists
    pxh, pyh, _ = gen.pad_widths(case, hv)
    nxe, nye = nx + 2 * pxh, ny + 2 * pyh
    eff = oracles.effective_modes(mh, nxe, nye)
    if nxe % 2 == 1 and eff[0] == nxe:
        out.label("flip-x-with-halo")
        cm, fm = run(q0[:, ::-1].copy(), (-u, v, Kx, Ky, Kz), dom, mh, (nx - 1 - im, jm), hv)
        for name, a, b in (("conc", ch, cm[:, :, ::-1]), ("flux", fh, fm[:, :, ::-1])):
            err = tol.maxabs(a - b)
            if not err <= rel * max(tol.maxabs(a), abs(bg), cs0 if name == "conc" else fs0):
                out.bad(f"x-mirror about the window centre with halo {hv}: {name} differs by {err:.3e} (padded {nxe}x{nye}, modes {mh})")
    if nxe % 2 == 1 and eff[0] == nxe and fpm:
        # a tower one cell beyond the last node (x = xmax) and its mirror image one cell before the first (x = -dx): both
        # lie in the periodic padded domain, and the mirror relation does not care where the window ends
        out.label("flip-x-tower-beyond-window")
        ce, fe = run(q0, prof, dom, mh, (nx, jm), hv)
        cm, fm = run(q0[:, ::-1].copy(), (-u, v, Kx, Ky, Kz), dom, mh, (-1, jm), hv)
        for name, a, b, inside in (("conc", ce, cm[:, :, ::-1], ch), ("flux", fe, fm[:, :, ::-1], fh)):
            err = tol.maxabs(a - b)
            # (with the tower outside it the window may hold next to nothing of the footprint: the scale below which
            #  differences are rounding is the size of the same footprint where it is large - the peak of the run with the
            #  tower inside the window, a whole-cell translate of this one - or the unit mass spread over the padded domain.
            #  A surface-level footprint is a unit spike in the tower's cell: thorough seed 14 reported 3e-15 next to it.)
            if not err <= rel * max(tol.maxabs(a), abs(bg), 1.0 / (nxe * nye), tol.maxabs(inside)):
                out.bad(f"x-mirror with the tower at x = xmax (image at x = -dx), halo {hv}: {name} differs by {err:.3e} "
                        f"(padded {nxe}x{nye}, modes {mh})")
    if nye % 2 == 1 and eff[1] == nye:
        out.label("flip-y-with-halo")
        cm, fm = run(q0[::-1, :].copy(), (u, -v, Kx, Ky, Kz), dom, mh, (im, ny - 1 - jm), hv)
        for name, a, b in (("conc", ch, cm[:, ::-1, :]), ("flux", fh, fm[:, ::-1, :])):
            err = tol.maxabs(a - b)
            if not err <= rel * max(tol.maxabs(a), abs(bg), cs0 if name == "conc" else fs0):
                out.bad(f"y-mirror about the window centre with halo {hv}: {name} differs by {err:.3e} (padded {nxe}x{nye}, modes {mh})")

    # ---- similarity in lengths: x, y, z, halo, meas_pt and K times s
    s = case["s"]
    rc = bool(case.get("recentre")) and not fpm
    if rc:
        ch, fh = run(q0, prof, dom, mh, (im, jm), hv, recentre=True)
        out.label("similarity-on-recentred-dispersion")
    cs, fs = run(q0, (u, v, s * Kx, s * Ky, s * Kz), (dom[0] * s, dom[1] * s), mh, (im, jm),
                 None if hv is None else hv * s, z_=z * s, recentre=rc)
    # the claim presupposes the same halo in cells: int(halo/dx) may flip at a whole-number boundary under rounding
    def pads(dom_, hv_):
        h = max(dom_) if hv_ is None else hv_
        return int(h / (dom_[0] / nx)), int(h / (dom_[1] / ny))

    same_pad = pads(dom, hv) == pads((dom[0] * s, dom[1] * s), None if hv is None else hv * s)
    if same_pad:
        for name, a, b in (("conc", ch, cs), ("flux", fh, fs)):
            scale = max(tol.maxabs(a), abs(bg), cs0 if name == "conc" else fs0)
            err = tol.maxabs(a - b)
            if not err <= rel * scale:
                out.bad(f"length similarity: {name} changes by {err:.3e} (> {rel * scale:.3e}) when all lengths and K are multiplied by {s}")
    else:
        out.label("length-similarity-skipped(int-boundary)")

    # ---- similarity in velocity: winds and K times a
    a_ = case["a"]
    ca, fa = run(q0, (a_ * u, a_ * v, a_ * Kx, a_ * Ky, a_ * Kz), dom, mh, (im, jm), hv, bg_=bg / a_, recentre=rc)
    err = tol.maxabs(fh - fa)
    if not err <= rel * max(tol.maxabs(fh), fs0):
        out.bad(f"velocity similarity: flux changes by {err:.3e} when winds and K are multiplied by {a_}")
    err = tol.maxabs(ch - a_ * ca)
    if not err <= rel * max(tol.maxabs(ch), abs(bg), cs0):
        out.bad(f"velocity similarity: conc is not divided by {a_} (difference {err:.3e})")

    # ---- the same two relations in single precision, power-of-two factors only
    if case.get("single") and same_pad is not None:
        s2, a2 = case["single"]["s"], case["single"]["a"]
        out.label("single-precision-similarity")
        c1, f1 = run(q0, prof, dom, mh, (im, jm), hv, recentre=rc, precision="single")
        c2, f2 = run(q0, (u, v, s2 * Kx, s2 * Ky, s2 * Kz), (dom[0] * s2, dom[1] * s2), mh, (im, jm),
                     None if hv is None else hv * s2, z_=z * s2, recentre=rc, precision="single")
        if pads(dom, hv) == pads((dom[0] * s2, dom[1] * s2), None if hv is None else hv * s2):
            for name, a, b in (("conc", c1, c2), ("flux", f1, f2)):
                scale = max(tol.maxabs(a), abs(bg), cs0 if name == "conc" else fs0)
                err = tol.maxabs(a.astype(float) - b.astype(float))
                if not err <= rel * scale:
                    out.bad(f"length similarity, single precision: {name} changes by {err:.3e} (> {rel * scale:.3e}) when all "
                            f"lengths and K are multiplied by {s2}")
        c3, f3 = run(q0, (a2 * u, a2 * v, a2 * Kx, a2 * Ky, a2 * Kz), dom, mh, (im, jm), hv, bg_=bg / a2, recentre=rc,
                     precision="single")
        err = tol.maxabs(f1.astype(float) - f3.astype(float))
        if not err <= rel * max(tol.maxabs(f1), fs0):
            out.bad(f"velocity similarity, single precision: flux changes by {err:.3e} when winds and K are multiplied by {a2}")
        err = tol.maxabs(c1.astype(float) - a2 * c3.astype(float))
        if not err <= rel * max(tol.maxabs(c1), abs(bg), cs0):
            out.bad(f"velocity similarity, single precision: conc is not divided by {a2} (difference {err:.3e})")

    aniso = tol.maxabs(Kx - Ky) > 0
    oblique = u[-1] * v[-1] != 0
    out.nontrivial = bool(aniso and oblique and (nx != ny or dx != dy))
    out.detail = {"logG": logG, "rel_tol": rel}
    return out
