"""C19 - the Kormann-Meixner reference model equals its published closed form."""

import math
import warnings

import numpy as np
from hypothesis import strategies as st
from scipy import special as sp

from .. import gen
from ..core import Outcome

ID = "C19"
LEVEL = "exploration"
K = 0.4
RULE = (
    "Hypothesis constructs physically consistent (zm, z0, ustar, L, sigma_v) with ws from the diabatic log law (positive U), each "
    "scalar independently typed as Python int/float or NumPy int32/int64/float32/float64 (integer-valued where typed integer), a "
    "grid (resolution, extents), a receptor position and wd in {None, multiples of 90, arbitrary}. kind=fp: every cell equals the "
    "paper's closed form D_y * f^y * res^2 written with scipy.special at independently rotated coordinates; >= 0; exactly 0 in "
    "downwind cells; mirror-symmetric about the wind axis (wd None); the same grid is then evaluated again for a receptor moved by whole cells. kind=mass: on plume-resolving grids sum(phi) -> gammaincc(mu, "
    "xi/X) (error <= 1e-4 and shrinking at res/2). kind=rot: on a receptor-centred square grid wd = 90 j gives np.rot90(field(wd=0), "
    "-j). kind=z0: estimateZ0 without smoothing inverts the diabatic log law; with smoothing it equals a brute-force circular-window "
    "median and is invariant under a common integer-degree rotation of directions on a 1/8-degree lattice. Non-trivial = footprint "
    "mass on the grid > 1e-6 (fp/rot; cell size is drawn relative to the footprint's peak distance), captured mass > 1e-3 (mass) or >= 5 observations (z0); distinct = canonical JSON."
)
ASSUMPTIONS = [
    "physically consistent inputs only (U > 0); the negative-U warning path is not asserted",
    "receptor coordinates are 0 or at least 1e-6 m in magnitude: for an upwind distance 0 < x < ~1e-128 m the code evaluates x**(-2.x) * exp(-xi/x) as inf*0 = NaN; differences of ordinary coordinates are 0 or >= ~1e-17 m, where the product is a clean 0, so no caller can reach that range",
    "mass convergence only on grids that resolve the crosswind Gaussian near the receptor (res <= min(x_pk/8, sigma(x_pk/4)/1.5))",
]
TOLERANCES = {"pointwise": "1e-9*|ref| + 1e-12*max|ref| (float64 inputs); 2e-4*max|ref| when a float32 scalar is involved",
              "mass": "1e-4 absolute, error(res/2) <= max(error/2, 1e-5) (calibrated over 809 resolved grids: base error <= 8.8e-6, refined error has a non-monotone floor <= 2.2e-6 from the narrow crosswind Gaussian near the receptor)", "rot90": "1e-9 * max", "z0": "1e-9 relative / exact median"}
BUDGET = {"quick": dict(examples=1200, shards=1), "thorough": dict(examples=12000, shards=16)}

TYPES = ("float", "float", "int", "np.float64", "np.float32", "np.int64", "np.int32")


def _psi(zeta):
    return gen.psi_m(zeta)


def _typed(v, t):
    if t == "float":
        return float(v)
    if t == "int":
        return int(v)
    return {"np.float64": np.float64, "np.float32": np.float32, "np.int64": np.int64, "np.int32": np.int32}[t](v)


def _is_int(t):
    return "int" in t


@st.composite
def _params(draw, allow_types=True):
    """Values are chosen so that an integer-typed scalar is integer-valued."""
    types = {k: (draw(st.sampled_from(TYPES)) if allow_types else "float") for k in ("zm", "z0", "ws", "ustar", "L", "sv")}
    zm = float(draw(st.integers(2, 40))) if _is_int(types["zm"]) else draw(gen.logfl(1.5, 40.0))
    if _is_int(types["z0"]):
        zm = max(zm, 12.0)  # an integer-typed roughness length is 1 m: keep the receptor well above it
    stab = draw(st.sampled_from(["stable", "unstable", "neutral"]))
    if _is_int(types["L"]):
        L = float(draw(st.integers(max(5, int(zm)), 2000))) * (-1.0 if stab == "unstable" else 1.0)
    else:
        L = {"stable": 1.0, "unstable": -1.0, "neutral": 1.0}[stab] * (1e6 if stab == "neutral" else zm * draw(gen.logfl(0.5, 200.0)))
    z0 = 1.0 if _is_int(types["z0"]) else zm * draw(gen.logfl(1e-3, 0.1))
    ustar = 1.0 if _is_int(types["ustar"]) else draw(gen.logfl(0.1, 0.9))
    # physically consistent by construction: a positive log-law wind speed of at least ~1 u*/kappa
    while math.log(zm / z0) + _psi(zm / L) < 1.0:
        L *= 2.0
    zeta = zm / L
    ws = ustar / K * (math.log(zm / z0) + _psi(zeta))
    if _is_int(types["ws"]):
        ws = float(max(1, round(ws)))
    sv = float(draw(st.integers(1, 2))) if _is_int(types["sv"]) else draw(gen.logfl(0.3, 2.0))
    return {"zm": zm, "z0": z0, "ws": ws, "ustar": ustar, "L": L, "sv": sv, "types": types}


@st.composite
def _case(draw):
    kind = draw(st.sampled_from(["fp", "fp", "fp", "mass", "rot", "z0"]))
    if kind == "z0":
        n = draw(st.integers(1, 24))
        half = draw(st.sampled_from([0, 1, 5, 22, 45, 89]))
        # directions: anywhere on the 1/8-degree lattice, or within two degrees of the places where a window
        # [k-h, k+1+h) meets north or the quadrant boundaries (the wrap-around logic lives there)
        edges = [0, 90, 270, 360 - half, half, 360 - half - 1, half + 1, 180]
        near = st.tuples(st.sampled_from(edges), st.integers(-16, 16)).map(lambda t: ((t[0] * 8 + t[1]) % (8 * 360)) / 8.0)
        anyw = st.integers(0, 8 * 360 - 1).map(lambda k: k / 8.0)
        obs = []
        for _ in range(n):
            p = draw(_params(allow_types=False))
            obs.append([p["zm"], p["ws"], draw(st.one_of(anyw, near, near)), p["ustar"], p["L"]])
        return {"kind": kind, "obs": obs, "half": half, "rot": draw(st.integers(1, 359))}
    p = draw(_params(allow_types=(kind != "mass")))
    case = {"kind": kind, "p": p}
    zm_, z0_, ws_, us_, L_, sv_ = _values(p)
    par = km_params(zm_, z0_, ws_, us_, L_)
    xpk = par[6] / (1 + par[5]) if par[2] > 0 else 10.0  # upwind distance of the peak of f^y
    if kind == "fp":
        # cell size relative to the peak distance so that the grid sees the footprint, not only its far tails
        case["res"] = float(f"{xpk * draw(gen.logfl(0.03, 1.5)):.6g}")
        case["ext"] = [draw(st.integers(2, 14)), draw(st.integers(2, 14)), draw(st.integers(2, 14)), draw(st.integers(2, 14))]
        # receptor coordinates in metres: zero or at least a micrometre (1e-164 m is not a position; with such offsets the
        # power law overflows before the exponential underflows - inf*0 - which no physical input reaches)
        mcoord = gen.fl(-30.0, 30.0).map(lambda v: v if abs(v) >= 1e-6 else 0.0)
        case["mxy"] = [draw(mcoord), draw(mcoord)] if draw(st.booleans()) else [0.0, 0.0]
        case["wd"] = draw(st.one_of(st.none(), st.sampled_from([0.0, 90.0, 180.0, 270.0, 360.0]), gen.fl(0.0, 360.0)))
        case["wd_int"] = draw(st.booleans())
        case["on_centre"] = draw(st.integers(0, 3)) == 0  # receptor exactly on a cell centre (zero along-wind distance cells)
        if draw(st.integers(0, 2)) == 0:
            case["ext_frac"] = [draw(st.sampled_from([0.3, 0.7, 0.45])), draw(st.sampled_from([0.3, 0.7, 0.45]))]
        if draw(st.integers(0, 3)) == 0:
            # a bounding box centred on the receptor in y, in half of these a fraction of a cell higher on BOTH sides: the
            # domain is symmetric about the wind axis (wd None), the rows - anchored at the top edge - are not
            case["ext"][3] = case["ext"][2]
            case["ext_frac"] = None
            case["ext_sym"] = draw(st.sampled_from([0.0, 0.25, 0.6]))
            if draw(st.booleans()):
                case["wd"] = None
        case["shift2"] = [draw(st.integers(-3, 3)), draw(st.integers(-3, 3))]  # second receptor on the same grid
    elif kind == "mass":
        case["xup_factor"] = draw(gen.fl(3.0, 12.0))
    else:
        case["res"] = float(f"{xpk * draw(gen.logfl(0.05, 1.0)):.6g}")
        case["half_cells"] = draw(st.integers(3, 12))
        case["j"] = draw(st.integers(1, 3))
    return case


def strategy(tier):
    return _case()


# ------------------------------------------------------------------ the paper's equations


def km_params(zm, z0, ws, ustar, L):
    zeta = zm / L
    if L < 0:
        phim = (1 - 16 * zeta) ** -0.25
        phic = (1 - 16 * zeta) ** -0.5
        n = (1 - 24 * zeta) / (1 - 16 * zeta)
    else:
        phim = phic = 1 + 5 * zeta
        n = 1 / (1 + 5 * zeta)
    psim = _psi(zeta)
    m = ustar * phim / (K * ws)
    kappa = K * ustar * zm / (phic * zm**n)
    U = ustar * (math.log(zm / z0) + psim) / (K * zm**m)
    r = 2 + m - n
    mu = (1 + m) / r
    xi = U * zm**r / (r * r * kappa)
    return m, n, U, kappa, r, mu, xi


def km_field(par, sv, x, y, res):
    """phi(x, y) = f^y(x) * Gaussian(y; sigma(x)) * res^2 for x > 0, else 0 (x upwind, y crosswind)."""
    m, n, U, kappa, r, mu, xi = par
    out = np.zeros_like(x, dtype=float)
    # exp(-xi/x) underflows to exactly 0 below x = xi/745: those cells are 0 (and their sigma may underflow too)
    up = x > xi / 745.0
    xu = x[up]
    with np.errstate(all="ignore"):
        ubar = sp.gamma(mu) / sp.gamma(1 / r) * (r * r * kappa / U) ** (m / r) * U * xu ** (m / r)
        sig = sv * xu / ubar
        logphi = (mu * np.log(xi) - (1 + mu) * np.log(xu) - xi / xu - sp.gammaln(mu)
                  - y[up] ** 2 / (2 * sig**2) - np.log(math.sqrt(2 * math.pi) * sig) + 2 * math.log(res))
        out[up] = np.exp(logphi)
    return out


def _ubar(par, x):
    m, n, U, kappa, r, mu, xi = par
    return sp.gamma(mu) / sp.gamma(1 / r) * (r * r * kappa / U) ** (m / r) * U * x ** (m / r)


def _call(p, dom, res, mxy, wd=None):
    from bldfm.ffm_kormann_meixner import estimateFootprint

    t = p["types"]
    args = [_typed(p[k], t[k]) for k in ("zm", "z0", "ws", "ustar", "L", "sv")]
    with warnings.catch_warnings():
        warnings.simplefilter("ignore")
        return estimateFootprint(*args, dom, res, mxy, wd=wd)


def _values(p):
    """float64 values of the scalars exactly as typed (float32 rounding included)."""
    return [float(_typed(p[k], p["types"][k])) for k in ("zm", "z0", "ws", "ustar", "L", "sv")]


# ------------------------------------------------------------------ checks


def check_case(case):
    return {"fp": _check_fp, "mass": _check_mass, "rot": _check_rot, "z0": _check_z0}[case["kind"]](case)


def _type_labels(out, p):
    ts = set(p["types"].values())
    out.label("typed:int" if any(_is_int(t) for t in ts) else "typed:float-only")
    if "np.float32" in ts:
        out.label("typed:float32")
    if _is_int(p["types"]["zm"]):
        out.label("int-zm")
    out.label("stab=" + ("unstable" if p["L"] < 0 else "neutral" if p["L"] >= 1e6 else "stable"))


def _check_fp(case):
    out = Outcome()
    p = case["p"]
    out.label("fp")
    _type_labels(out, p)
    res = case["res"]
    e = case["ext"]
    mx, my = case["mxy"]
    dom = [mx - e[0] * res, mx + e[1] * res, my - e[2] * res, my + e[3] * res]
    if case.get("ext_frac"):
        # a bounding box that is not a whole number of cells wide / high (the far edges lie a fraction of a cell further out)
        dom[1] += case["ext_frac"][0] * res
        dom[2] -= case["ext_frac"][1] * res
        out.label("extent-not-a-multiple-of-res")
    if case.get("ext_sym"):
        dom[2] -= case["ext_sym"] * res
        dom[3] += case["ext_sym"] * res
        out.label("centred-box-not-a-multiple-of-res")
    if case.get("on_centre"):
        # shift the grid by half a cell: cell centres now fall on the receptor's own coordinates
        dom = [v - 0.5 * res for v in dom]
        out.label("receptor-on-cell-centre")
    wd = case["wd"]
    if wd is not None and case["wd_int"] and float(wd).is_integer():
        wd = int(wd)
    out.label("wd=None" if wd is None else "wd=mult90" if float(wd) % 90 == 0 else "wd=arbitrary")
    try:
        gx, gy, ff = _call(p, dom, res, [mx, my], wd)
    except Exception as ex:
        out.bad(f"estimateFootprint raised {type(ex).__name__}: {ex}")
        return out
    zm, z0, ws, ustar, L, sv = _values(p)
    par = km_params(zm, z0, ws, ustar, L)
    if par[2] <= 0:
        out.label("negative-U(skipped)")
        return out
    # expected grid: cell centres, x ascending, y descending from the top edge
    ex_x = np.arange(dom[0] + 0.5 * res, dom[1], res)
    ex_y = np.arange(dom[3] - 0.5 * res, dom[2], -res)
    if gx.shape != (len(ex_y), len(ex_x)) or ff.shape != gx.shape:
        out.bad(f"grid shape {gx.shape}, expected {(len(ex_y), len(ex_x))}")
        return out
    E, N = gx - mx, gy - my
    if wd is None:
        x, y = E, N
    else:
        th = math.radians(float(wd))
        x = E * math.sin(th) + N * math.cos(th)  # distance along the direction the wind comes from
        y = N * math.sin(th) - E * math.cos(th)
    ref = km_field(par, sv, x, y, res)
    mref = float(ref.max()) if ref.size else 0.0
    # the size of this footprint where it is large (on the wind axis at the peak distance of f^y), whether or not the grid
    # reaches that place: values twelve orders of magnitude below it are nothing, and their RELATIVE accuracy is that of
    # exp(-xi/x) and exp(-y^2/2 sigma^2) at arguments of several hundred (thorough seed 16: 1.1875e-271 vs 1.1878e-271 on
    # a grid that lies almost entirely downwind of the second receptor, so that the grid maximum itself was ~1e-271)
    peak = float(km_field(par, sv, np.array([par[6] / (1 + par[5])]), np.array([0.0]), res)[0])
    if not np.isfinite(peak):
        peak = 0.0
    f32 = "np.float32" in p["types"].values()
    if f32:
        ok = np.abs(ff - ref) <= 2e-4 * max(mref, peak) + 1e-300
    else:
        # cells within rounding of the crosswind axis x = 0 may fall on either side; their value is ~exp(-xi/x) = 0 anyway
        ok = np.abs(ff - ref) <= 1e-9 * np.abs(ref) + 1e-12 * max(mref, peak) + 1e-300
    if not np.all(ok):
        j, i = np.argwhere(~ok)[0]
        out.bad(f"cell ({j},{i}) at upwind {x[j, i]:.6g}, crosswind {y[j, i]:.6g}: footprint {ff[j, i]!r}, closed form {ref[j, i]!r} "
                f"(field max {mref:.3e}; types {p['types']}, wd {wd!r})")
    if np.any(ff < 0):
        out.bad("negative footprint values")
    down = x < -1e-9 * (abs(mx) + abs(my) + res * 20)
    if np.any(ff[down] != 0):
        out.bad("non-zero footprint in downwind cells")
    if wd is None and e[2] == e[3] and not f32 and not case.get("on_centre") and not case.get("ext_frac") and not case.get("ext_sym"):
        if not np.abs(ff - ff[::-1, :]).max() <= 1e-9 * mref:
            out.bad("footprint not mirror-symmetric about the wind axis")
        out.label("symmetry-checked")
    out.nontrivial = (mref > 0 and float(ref.sum()) > 1e-6) if not out.fail else True
    if mref > 0 and not float(ff.sum()) > 0:
        out.bad(f"closed form has mass {ref.sum():.3e} on this grid but the returned footprint sums to {ff.sum()!r}")
    out.detail = {"max_rel": float(np.max(np.abs(ff - ref)) / mref) if mref > 0 else 0.0}

    # the same grid again with the receptor moved by whole cells (a tower survey on one raster): every call must be
    # the closed form about ITS receptor, whatever was computed on this grid before
    sx, sy = case.get("shift2", [0, 0])
    if (sx, sy) != (0, 0) and not out.fail:
        mx2, my2 = mx + sx * res, my + sy * res
        gx2, gy2, ff2 = _call(p, dom, res, [mx2, my2], wd)
        E2, N2 = gx2 - mx2, gy2 - my2
        if wd is None:
            x2, y2 = E2, N2
        else:
            x2 = E2 * math.sin(th) + N2 * math.cos(th)
            y2 = N2 * math.sin(th) - E2 * math.cos(th)
        ref2 = km_field(par, sv, x2, y2, res)
        m2 = float(ref2.max()) if ref2.size else 0.0
        ok2 = np.abs(ff2 - ref2) <= (2e-4 * max(m2, peak) if f32 else 1e-9 * np.abs(ref2) + 1e-12 * max(m2, peak)) + 1e-300
        if not np.all(ok2):
            j, i = np.argwhere(~ok2)[0]
            out.bad(f"second receptor {(mx2, my2)} on the same grid: cell ({j},{i}) footprint {ff2[j, i]!r}, closed form {ref2[j, i]!r} "
                    f"(first receptor was {(mx, my)}; wd {wd!r})")
        out.label("second-receptor-checked")
    # ... and once more with only the crosswind spread changed (same grid, same receptor)
    if not out.fail and not case.get("_is_twin"):
        t = dict(case)
        t["_is_twin"] = True
        t["p"] = dict(p, sv=p["sv"] * 2.0)
        t["shift2"] = [0, 0]
        for f_ in _check_fp(t).fail:
            out.bad(f"second call differing only in sigma_v: {f_}")
    return out


def _check_mass(case):
    out = Outcome()
    p = case["p"]
    out.label("mass")
    zm, z0, ws, ustar, L, sv = _values(p)
    par = km_params(zm, z0, ws, ustar, L)
    m, n, U, kappa, r, mu, xi = par
    if U <= 0:
        return out
    Xup = xi * case["xup_factor"]
    sig = sv * Xup / _ubar(par, Xup)
    W = 7 * sig
    xpk = xi / (1 + mu)
    res0 = min(xpk / 8, sv * (xpk / 4) / _ubar(par, xpk / 4) / 1.5)
    if (Xup / res0) * (2 * W / res0) > 4e5:
        out.label("mass-grid-too-large(skipped)")
        return out
    M = float(sp.gammaincc(mu, xi / Xup))
    errs = []
    for fac in (1, 2):
        res = Xup / math.ceil(Xup / res0) / fac
        nc = int(math.ceil(W / res))
        gx, gy, ff = _call(p, [0.0, Xup, -nc * res, nc * res], res, [0.0, 0.0])
        errs.append(abs(float(ff.sum()) - M))
    if not errs[0] <= 1e-4:
        out.bad(f"sum of the footprint {M - errs[0]!r}.. differs from the captured mass gammaincc(mu, xi/X) = {M!r} by {errs[0]:.3e}")
    if not errs[1] <= max(errs[0] / 2, 1e-5):
        out.bad(f"mass error does not shrink under refinement: {errs[0]:.3e} -> {errs[1]:.3e} at res/2")
    out.detail = {"errs": errs, "M": M}
    out.nontrivial = M > 1e-3
    return out


def _check_rot(case):
    out = Outcome()
    p = case["p"]
    out.label("rot")
    _type_labels(out, p)
    res, hc, j = case["res"], case["half_cells"], case["j"]
    dom = [-hc * res, hc * res, -hc * res, hc * res]
    zm, z0, ws, ustar, L, sv = _values(p)
    if km_params(zm, z0, ws, ustar, L)[2] <= 0:
        return out
    _, _, f0 = _call(p, dom, res, [0.0, 0.0], 0.0)
    _, _, fj = _call(p, dom, res, [0.0, 0.0], 90.0 * j)
    _, _, fn = _call(p, dom, res, [0.0, 0.0], None)
    mx = float(f0.max())
    if f0.shape != fj.shape or f0.shape[0] != f0.shape[1]:
        out.bad(f"shapes {f0.shape} {fj.shape}")
        return out
    if not np.abs(fj - np.rot90(f0, -j)).max() <= 1e-9 * mx:
        out.bad(f"wd = {90 * j} is not the wd = 0 footprint rotated clockwise by {90 * j} degrees about the receptor "
                f"(max diff {np.abs(fj - np.rot90(f0, -j)).max():.3e}, field max {mx:.3e})")
    # wd=None aligns x with the upwind direction = wd 90 (wind from +x)
    _, _, f90 = _call(p, dom, res, [0.0, 0.0], 90.0)
    if not np.abs(f90 - fn).max() <= 1e-9 * mx:
        out.bad("wd = 90 differs from the wind-aligned (wd=None) footprint on a receptor-centred grid")
    out.nontrivial = float(f0.sum()) > 1e-6
    return out


def _check_z0(case):
    from bldfm.ffm_kormann_meixner import estimateZ0

    out = Outcome()
    obs = np.asarray(case["obs"], float)
    zm, ws, wd, ustar, L = obs.T.copy()
    hw = case["half"]
    out.label("z0", f"half={hw}", f"nobs={'1' if len(zm) == 1 else '2-4' if len(zm) < 5 else '5+'}")
    keep = [a.copy() for a in (zm, ws, wd, ustar, L)]
    raw = estimateZ0(zm, ws, wd, ustar, L, half_wd_win=0)
    estimateZ0(zm, ws, wd, ustar, L, half_wd_win=max(hw, 1))
    if not all(np.array_equal(a, b) for a, b in zip((zm, ws, wd, ustar, L), keep)):
        out.bad("estimateZ0 modified its input arrays")
        zm, ws, wd, ustar, L = [a.copy() for a in keep]
    psi = np.array([_psi(a / b) for a, b in zip(zm, L)])
    ok = np.isfinite(raw)
    back = ustar[ok] / K * (np.log(zm[ok] / raw[ok]) + psi[ok])
    if not np.all(np.abs(back - ws[ok]) <= 1e-9 * ws[ok]):
        out.bad("unsmoothed roughness length does not invert the diabatic log law")
    expect_nan = zm * np.exp(psi - K * ws / ustar) > 1000
    if not np.array_equal(~ok, expect_nan):
        out.bad("outlier masking differs from z0 > 1000")
    if hw >= 1:
        sm = estimateZ0(zm.copy(), ws.copy(), wd.copy(), ustar.copy(), L.copy(), half_wd_win=hw)
        ref = np.full(len(wd), np.nan)
        for i in range(len(wd)):
            kk = math.floor(wd[i])
            inwin = ((wd - (kk - hw)) % 360.0) < (1 + 2 * hw)
            vals = raw[inwin]
            ref[i] = np.nanmedian(vals) if np.any(np.isfinite(vals)) else np.nan
        if not np.allclose(sm, ref, rtol=1e-12, atol=0, equal_nan=True):
            out.bad(f"smoothed z0 differs from the brute-force circular-window median (half window {hw}): {sm.tolist()} vs {ref.tolist()}")
        wd2 = (wd + case["rot"]) % 360.0
        sm2 = estimateZ0(zm.copy(), ws.copy(), wd2, ustar.copy(), L.copy(), half_wd_win=hw)
        if not np.allclose(sm, sm2, rtol=1e-12, atol=0, equal_nan=True):
            out.bad(f"smoothed z0 changes under a common rotation of all wind directions by {case['rot']} degrees")
    out.nontrivial = len(zm) >= 5
    return out
