"""C15 - the result cache is transparent, complete, effective and crash-safe.

Stateful search (RuleBasedStateMachine) over histories of solves, re-opened
cache objects and injected file faults on one persistent cache directory,
against a model (memo of uncached results + which entry file belongs to which
request and whether it is intact); a sampled / exhaustive enumeration of
truncation offsets of stored entries; one cross-process pre-population."""

import json
import os
import shutil
import subprocess
import sys
import tempfile

import numpy as np
from hypothesis import strategies as st
from hypothesis.stateful import RuleBasedStateMachine, precondition, rule

from .. import env, sut
from ..core import Falsified, Outcome

ID = "C15"
LEVEL = "exploration"
RULE = (
    "Histories (Hypothesis RuleBasedStateMachine, up to 25/40 steps) over: solve(request) through a recording subclass of "
    "GreensFunctionCache on one persistent directory, reopen (new cache object), truncate(entry, fraction), zero_length(entry), "
    "drop a junk file, clear(). Requests = a base footprint request and every single-argument variant of the solver signature "
    "(source values, source shape, z, each of the five profiles, domain, levels scalar/list, modes, meas_pt, background, footprint "
    "flag, analytic flag, halo None / explicit-equal-to-default / other / 0, precision, last-digit changes of meas_pt and Kz, and 1203-node columns whose level list / z differ only in the middle) plus generated ordered level selections of 1..4 levels. Every answer is modified in place by the caller after it has been compared (a cache must not hand out arrays it keeps). Model: memo of uncached results; map entry "
    "file -> (request, intact). Invariants after every step: a cached solve returns exactly the uncached result (array_equal, "
    "dtypes, grids); a request that was solved with the cache attached (and whose entry was not damaged or cleared since) is a hit with no put - also when the solve had to repair a damaged entry; no solve raises, whatever files are damaged. "
    "Enumerated part: for each request kind a stored entry is truncated at sampled (quick) or every (thorough) byte offset and "
    "solved again. One real second process pre-populates a directory that the parent then reads; four overlapped-store cases (another process or a forked child opens / uses the directory between the write and the rename of an entry); two killed-store cases (a real process dies with half of an entry written, or with all of it written and nothing else done: the next identical request is right, the one after it is a hit); two interface-level cases (run_bldfm_single with and without a cache object, weak and ordinary wind, default and two-level output). Non-trivial = history with a "
    "store followed by a different request, or a file fault followed by a solve; distinct = canonical JSON of the step list."
)
ASSUMPTIONS = [
    "crash points are modelled as prefixes of a stored entry file (plus stray files); torn writes that reorder blocks are not modelled",
    "the cache is only consulted in footprint mode (documented)",
]
TOLERANCES = {"transparency": "array_equal, same dtype and shape"}
BUDGET = {"quick": dict(examples=120, shards=1, enum_procs=1), "thorough": dict(examples=400, shards=16, enum_procs=16)}
STEP_COUNT = {"quick": 25, "thorough": 40}
CONFIRM_FRESH_PROCESS = True


def warmup():
    sut.warm()


# ------------------------------------------------------------------ the request alphabet


def _base():
    z = np.array([0.05, 0.6, 1.4, 2.5, 4.0, 6.0])
    u = 1.2 * np.log(z / 0.04) * 0.8
    v = 1.2 * np.log(z / 0.04) * 0.45
    K = 0.4 * 0.35 * z
    return {
        "q": (np.arange(30, dtype=float).reshape(6, 5) % 7) - 2.0,
        "z": z, "profiles": (u, v, K, 0.8 * K, 1.1 * K), "domain": (50.0, 42.0), "levels": 2, "modes": (8, 8),
        "meas_pt": (10.0, 14.0), "bg": 0.0, "footprint": True, "analytic": False, "halo": None, "precision": "double",
    }


def _variants():
    b = _base()
    V = [("base", {})]
    V.append(("source-values", {"q": b["q"] * -0.5 + 1.0}))
    V.append(("source-shape", {"q": np.ones((7, 5))}))
    V.append(("z", {"z": b["z"] * 1.1}))
    for i, name in enumerate(("u", "v", "Kx", "Ky", "Kz")):
        p = list(b["profiles"])
        p[i] = p[i] * 1.25
        V.append((name, {"profiles": tuple(p)}))
    V.append(("domain", {"domain": (50.0, 48.0)}))
    V.append(("levels-scalar", {"levels": 3}))
    V.append(("levels-list", {"levels": [1, 3]}))
    V.append(("levels-list-unsorted", {"levels": [3, 1]}))
    V.append(("modes", {"modes": (4, 8)}))
    V.append(("meas_pt", {"meas_pt": (20.0, 14.0)}))
    V.append(("background", {"bg": 2.5}))
    V.append(("dispersion", {"footprint": False}))
    V.append(("analytic", {"analytic": True}))
    V.append(("halo-explicit-default", {"halo": 50.0}))
    V.append(("halo-other", {"halo": 10.0}))
    V.append(("halo-zero", {"halo": 0.0}))
    V.append(("precision", {"precision": "single"}))
    # a pair on an even padded grid (6x6 cells, no halo): one mode count above the padded size (the solver then keeps
    # ALL modes in both axes) and the request that a per-axis clamp would turn it into
    V.append(("modes-one-above-padded", {"q": np.ones((6, 6)), "halo": 0.0, "modes": (8, 4)}))
    V.append(("modes-per-axis-clamp-of-it", {"q": np.ones((6, 6)), "halo": 0.0, "modes": (6, 4)}))
    # requests that differ in the last digits only must not share an entry either
    V.append(("meas_pt-tiny", {"meas_pt": (10.0 + 1e-9, 14.0)}))
    p = list(b["profiles"])
    p[4] = p[4] * (1 + 1e-12)
    V.append(("Kz-tiny", {"profiles": tuple(p)}))
    # same number of pad cells in x as "halo-other" (cells are 10 m x 7 m) but one more in y
    V.append(("halo-other-same-x-cells", {"halo": 14.5}))
    # one profile stored in single precision (a Kz read from a float32 file) and the request with exactly the same VALUES in
    # double precision: the solver computes 1/Kz in the precision it is given, so the two results differ in the 9th digit
    p = list(b["profiles"])
    kz32 = p[4].astype(np.float32)
    V.append(("Kz-float32", {"profiles": (p[0], p[1], p[2], p[3], kz32)}))
    V.append(("Kz-float32-values-in-float64", {"profiles": (p[0], p[1], p[2], p[3], kz32.astype(np.float64))}))
    # long arguments that differ only in the middle (a key built from a printed / abbreviated form of an array
    # cannot tell them apart): a 1202-layer column with the full column requested, the same with two middle levels
    # swapped, and the column with one middle node moved (scalar level)
    zt = np.linspace(0.05, 6.0, 1203)
    Kt = 0.4 * 0.35 * zt
    tall = {"z": zt, "profiles": (1.2 * np.log(zt / 0.04) * 0.8, 1.2 * np.log(zt / 0.04) * 0.45, Kt, 0.8 * Kt, 1.1 * Kt)}
    full = list(range(1203))
    swapped = list(full)
    swapped[600], swapped[601] = swapped[601], swapped[600]
    zt2 = zt.copy()
    zt2[600] += 1e-3
    V.append(("tall-all-levels", dict(tall, levels=full)))
    V.append(("tall-middle-levels-swapped", dict(tall, levels=swapped)))
    V.append(("tall-scalar-level", dict(tall, levels=700)))
    V.append(("tall-middle-node-moved", dict(tall, z=zt2, levels=700)))
    out = []
    for name, ch in V:
        r = dict(b)
        r.update(ch)
        out.append((name, r))
    return out


REQUESTS = _variants()
NAMES = [n for n, _ in REQUESTS]
_DYN = {}


def request_for_levels(lv):
    """Generated requests: the base request with an arbitrary ordered selection of output levels
    (registered on first use; the registry is a pure function of the selections seen)."""
    key = tuple(int(v) for v in lv)
    if key not in _DYN:
        r = dict(_base())
        r["levels"] = list(key)
        REQUESTS.append((f"levels={list(key)}", r))
        NAMES.append(f"levels={list(key)}")
        _DYN[key] = len(REQUESTS) - 1
    return _DYN[key]


def _solve(req, cache=None):
    from bldfm.solver import steady_state_transport_solver as S

    return S(req["q"], req["z"], req["profiles"], req["domain"], req["levels"], modes=req["modes"], meas_pt=req["meas_pt"],
             srf_bg_conc=req["bg"], footprint=req["footprint"], analytic=req["analytic"], halo=req["halo"],
             precision=req["precision"], cache=cache)


_MEMO = {}


def _uncached(i):
    if i not in _MEMO:
        _MEMO[i] = _solve(REQUESTS[i][1])
    return _MEMO[i]


def _same(a, b):
    """(grid, conc, flx) tuples identical in values, shapes and dtypes."""
    ga, ca, fa = a
    gb, cb, fb = b
    pairs = list(zip(ga, gb)) + [(ca, cb), (fa, fb)]
    for x, y in pairs:
        x, y = np.asarray(x), np.asarray(y)
        if x.shape != y.shape:
            return f"shape {x.shape} vs {y.shape}"
        if x.dtype != y.dtype:
            return f"dtype {x.dtype} vs {y.dtype}"
        if not np.array_equal(x, y):
            return f"values differ by up to {np.abs(x.astype(float) - y.astype(float)).max():.3e}"
    return None


def _recording_cache(directory, log):
    from bldfm.cache import GreensFunctionCache

    class Rec(GreensFunctionCache):
        def _snap(self):
            return {p.name: (p.stat().st_size, p.stat().st_mtime_ns) for p in self.cache_dir.iterdir() if p.is_file()}

        def get(self, *a, **k):
            r = super().get(*a, **k)
            log.append(("hit",) if r is not None else ("miss",))
            return r

        def put(self, *a, **k):
            before = self._snap()
            super().put(*a, **k)
            after = self._snap()
            changed = sorted(n for n in after if before.get(n) != after[n] and n.endswith(".npz"))
            log.append(("put", changed))

    return Rec(directory)


# ------------------------------------------------------------------ history interpreter (shared by machine and replay)


class History:
    def __init__(self):
        self.dir = tempfile.mkdtemp(prefix="c15-cache-", dir=str(env.scratch()))
        self.log = []
        self.cache = _recording_cache(self.dir, self.log)
        self.files = {}  # entry file name -> {"req": index, "intact": bool}
        self.hot = set()  # requests solved with the cache attached since the last damage / clear: the next one must hit
        self.steps = []
        self.flags = set()
        self.stored_then_other = False
        self.fault_then_solve = False
        self._last_put_req = None
        self._pending_fault = False

    def close(self):
        shutil.rmtree(self.dir, ignore_errors=True)

    def entries(self):
        return sorted(n for n in os.listdir(self.dir) if n.endswith(".npz") and not n.startswith("junk"))

    def apply(self, op):
        """Execute one step; return a list of discrepancy strings."""
        self.steps.append(op)
        kind = op[0]
        if kind == "solve":
            return self._solve(op[1])
        if kind == "solve_levels":
            return self._solve(request_for_levels(op[1]))
        if kind == "reopen":
            self.cache = _recording_cache(self.dir, self.log)
            self.flags.add("reopen")
            return []
        if kind in ("truncate", "zero"):
            ent = self.entries()
            if not ent:
                return []
            name = ent[op[1] % len(ent)]
            path = os.path.join(self.dir, name)
            size = os.path.getsize(path)
            cut = 0 if kind == "zero" else min(size - 1, int(op[2] * size))
            with open(path, "r+b") as f:
                f.truncate(max(cut, 0))
            if name in self.files:
                self.files[name]["intact"] = False
            self.hot.clear()  # several requests may legitimately share one entry: after damage expect nothing until re-solved
            self._pending_fault = True
            self.flags.add(kind)
            return []
        if kind == "junk":
            name = ["junk0.npz", "README.txt", "junk1.npz.tmp"][op[1] % 3]
            with open(os.path.join(self.dir, name), "wb") as f:
                f.write(bytes(op[2]))
            self.flags.add("junk")
            return []
        if kind == "clear":
            try:
                self.cache.clear()
            except Exception as e:
                return [f"cache.clear() raised {type(e).__name__}: {e}"]
            self.files = {n: v for n, v in self.files.items() if os.path.exists(os.path.join(self.dir, n))}
            self.hot.clear()
            left = self.entries()
            self.flags.add("clear")
            if left:
                return [f"cache.clear() left entries behind: {left}"]
            return []
        raise ValueError(op)

    def _solve(self, i):
        name, req = REQUESTS[i]
        fails = []
        expect_hit = req["footprint"] and (i in self.hot or any(
            v["req"] == i and v["intact"] and os.path.exists(os.path.join(self.dir, n)) for n, v in self.files.items()))
        del self.log[:]
        try:
            got = _solve(req, cache=self.cache)
        except Exception as e:
            return [f"solve({name}) with the cache attached raised {type(e).__name__}: {e} "
                    f"(entries on disk: {[(n, os.path.getsize(os.path.join(self.dir, n))) for n in self.entries()]})"]
        ref = _uncached(i)
        diff = _same(got, ref)
        # the returned arrays belong to the caller, who may go on to normalise or convert them in place: nothing the
        # cache keeps (in memory or on disk) may be affected by that, so every answer is scribbled on after comparison
        inputs = [req["q"], req["z"], *req["profiles"]]
        for arr in [*got[0], got[1], got[2]]:
            if isinstance(arr, np.ndarray) and arr.flags.writeable and not any(np.shares_memory(arr, x) for x in inputs):
                arr *= -3.0
                arr += 7.0
        hit = ("hit",) in self.log
        puts = [e for e in self.log if e[0] == "put"]
        if diff:
            fails.append(f"solve({name}) with the cache attached ({'hit' if hit else 'miss'}) differs from the uncached result: {diff} "
                         f"(history: {[NAMES[s[1]] if s[0] == 'solve' else (f'levels={s[1]}' if s[0] == 'solve_levels' else s[0]) for s in self.steps]})")
        if expect_hit and (not hit or puts):
            fails.append(f"solve({name}) repeated with its entry intact was not served from the cache "
                         f"(log {self.log}; halo argument {req['halo']!r})")
        for p in puts:
            for n in p[1]:
                # a file rewritten for request i no longer vouches for the request that owned it before
                if n in self.files and self.files[n]["req"] != i:
                    self.hot.discard(self.files[n]["req"])
                self.files[n] = {"req": i, "intact": True}
        if req["footprint"] and not fails:
            self.hot.add(i)  # solved with the cache attached: an identical repeat must now be served from it
        if req["footprint"] and not hit and not puts:
            fails.append(f"solve({name}) missed the cache but stored nothing (log {self.log})")
        if self._last_put_req is not None and self._last_put_req != i and req["footprint"]:
            self.stored_then_other = True
        if puts:
            self._last_put_req = i
        if self._pending_fault and req["footprint"]:
            self.fault_then_solve = True
            self._pending_fault = False
        return fails

    def outcome(self, fails=()):
        out = Outcome()
        out.fail.extend(fails)
        out.nontrivial = self.stored_then_other or self.fault_then_solve
        out.label(*sorted("op:" + f for f in self.flags))
        if self.stored_then_other:
            out.label("store-then-variant")
        if self.fault_then_solve:
            out.label("fault-then-solve")
        return out


# ------------------------------------------------------------------ Hypothesis state machine


def machine(tier, stats, last_fail):
    class CacheMachine(RuleBasedStateMachine):
        def __init__(self):
            super().__init__()
            self.h = History()

        def _do(self, op):
            fails = self.h.apply(op)
            if fails:
                case = {"kind": "history", "steps": list(self.h.steps)}
                stats.record(case, self.h.outcome(fails))
                last_fail.clear()
                last_fail.update({"case": case, "fail": fails, "detail": {}})
                self.h.recorded = True
                raise Falsified("; ".join(fails))

        @rule(i=st.integers(0, len(REQUESTS) - 1))
        def solve(self, i):
            self._do(["solve", i])

        @rule(i=st.sampled_from([0, 0, 10, 11, 15, 17, 18, NAMES.index("modes-one-above-padded"), NAMES.index("modes-per-axis-clamp-of-it")]))
        def solve_common(self, i):
            self._do(["solve", i])

        @rule(i=st.sampled_from([NAMES.index(n) for n in ("tall-all-levels", "tall-middle-levels-swapped", "tall-scalar-level",
                                                            "tall-middle-node-moved", "Kz-float32", "Kz-float32-values-in-float64", "halo-other", "halo-other-same-x-cells")]))
        def solve_tall(self, i):
            self._do(["solve", i])

        @rule(lv=st.lists(st.integers(0, 5), min_size=1, max_size=4, unique=True))
        def solve_levels(self, lv):
            self._do(["solve_levels", lv])

        @rule(lv=st.permutations([1, 2, 4]))
        def solve_three_levels(self, lv):
            self._do(["solve_levels", list(lv)])

        @rule()
        def reopen(self):
            self._do(["reopen"])

        @precondition(lambda self: bool(self.h.entries()))
        @rule(k=st.integers(0, 30), frac=st.floats(0.0, 1.0))
        def truncate(self, k, frac):
            self._do(["truncate", k, frac])

        @precondition(lambda self: bool(self.h.entries()))
        @rule(k=st.integers(0, 30))
        def zero_length(self, k):
            self._do(["zero", k])

        @rule(k=st.integers(0, 2), data=st.binary(min_size=0, max_size=40))
        def junk(self, k, data):
            self._do(["junk", k, list(data)])

        @rule()
        def clear(self):
            self._do(["clear"])

        def teardown(self):
            if not getattr(self.h, "recorded", False) and self.h.steps:
                stats.record({"kind": "history", "steps": list(self.h.steps)}, self.h.outcome())
            stats.extra["history_steps"] = stats.extra.get("history_steps", 0) + len(self.h.steps)
            self.h.close()

    return CacheMachine


# ------------------------------------------------------------------ enumerated faults and cross-process


def enumerate_cases(tier):
    cases = [{"kind": "xproc"}] + [{"kind": "interleave", "other": o} for o in ("construct-only", "same-request", "another-request", "forked-same-instance")]
    cases += [{"kind": "killed-store", "at": a} for a in ("mid-write", "before-rename")]
    cases += [{"kind": "interface", "ws": ws, "wd": wd, "levels": lv} for ws, wd, lv in ((0.37, 203.0, None), (3.3, 75.0, [3, 1]))]
    # which request kinds get their stored entry cut: all footprint requests; offsets: sampled / all
    for i, (name, req) in enumerate(REQUESTS):
        if not req["footprint"]:
            continue
        if tier == "quick":
            if name in ("base", "levels-list", "precision"):
                cases.append({"kind": "cuts", "req": i, "offsets": "sample", "n": 20})
        else:
            if name in ("base", "levels-list", "precision", "source-shape", "halo-zero"):
                for part in range(16):
                    cases.append({"kind": "cuts", "req": i, "offsets": "all", "part": part, "parts": 16})
    return cases


ENUM_EXHAUSTIVE = False  # exhaustive in byte offsets (thorough) for the listed request kinds, not in histories


def _check_cuts(case):
    out = Outcome()
    i = case["req"]
    name, req = REQUESTS[i]
    out.label("cuts", "req=" + name)
    d = tempfile.mkdtemp(prefix="c15-cuts-", dir=str(env.scratch()))
    try:
        log = []
        cache = _recording_cache(d, log)
        ref = _uncached(i)
        _solve(req, cache=cache)
        ent = sorted(n for n in os.listdir(d) if n.endswith(".npz"))
        if len(ent) != 1:
            out.bad(f"one footprint solve left {len(ent)} entries in the cache directory")
            return out
        path = os.path.join(d, ent[0])
        blob = open(path, "rb").read()
        size = len(blob)
        if case["offsets"] == "sample":
            n = case["n"]
            offs = sorted({0, 1, size - 1, size // 2} | {int(size * k / n) for k in range(n)})
        else:
            offs = list(range(case["part"], size, case["parts"]))
        tested = 0
        for cut in offs:
            with open(path, "wb") as f:
                f.write(blob[:cut])
            try:
                got = _solve(req, cache=_recording_cache(d, log))
            except Exception as e:
                out.bad(f"entry of {name} truncated to {cut}/{size} bytes: solve raised {type(e).__name__}: {e}")
                break
            diff = _same(got, ref)
            if diff:
                out.bad(f"entry of {name} truncated to {cut}/{size} bytes: solve returned a wrong result ({diff})")
                break
            tested += 1
        out.detail = {"entry_bytes": size, "offsets_tested": tested}
        out.nontrivial = tested >= 2
    finally:
        shutil.rmtree(d, ignore_errors=True)
    return out


_XPROC = r"""
import sys, os
sys.path.insert(0, sys.argv[1]); sys.path.insert(0, sys.argv[2])
from pbt import env
env.setup(chdir=True); env.import_bldfm()
from pbt.props import c15
from bldfm.cache import GreensFunctionCache
cache = GreensFunctionCache(sys.argv[3])
for i, (name, req) in enumerate(c15.REQUESTS):
    c15._solve(req, cache=cache)
sys.stdout.write("populated\n"); sys.stdout.flush()
env.hard_exit(0)
"""


_INTERLEAVE = r"""
import sys, os
sys.path.insert(0, sys.argv[1]); sys.path.insert(0, sys.argv[2])
from pbt import env
env.setup(chdir=True); env.import_bldfm()
from pbt.props import c15
from bldfm.cache import GreensFunctionCache
cache = GreensFunctionCache(sys.argv[3])          # what every worker does first
for i in [int(v) for v in sys.argv[4].split(",") if v]:
    c15._solve(c15.REQUESTS[i][1], cache=cache)
sys.stdout.write("done\n"); sys.stdout.flush()
env.hard_exit(0)
"""


_KILLED = r"""
import sys, os
sys.path.insert(0, sys.argv[1]); sys.path.insert(0, sys.argv[2])
from pbt import env
env.setup(chdir=True); env.import_bldfm()
import numpy
from pbt.props import c15
from bldfm.cache import GreensFunctionCache
orig = numpy.savez
def savez(file, *a, **k):
    orig(file, *a, **k)
    if sys.argv[5] == "mid-write":          # the process dies with half of the entry written ...
        if hasattr(file, "flush"):
            file.flush(); os.ftruncate(file.fileno(), max(1, file.tell() // 2))
        else:
            name = str(file) if str(file).endswith(".npz") else str(file) + ".npz"
            os.truncate(name, max(1, os.path.getsize(name) // 2))
    elif hasattr(file, "flush"):             # ... or with all of it written and nothing done afterwards
        file.flush()
    sys.stdout.write("killed\n"); sys.stdout.flush()
    os._exit(17)
numpy.savez = savez
c15._solve(c15.REQUESTS[int(sys.argv[4])][1], cache=GreensFunctionCache(sys.argv[3]))
sys.stdout.write("store-not-reached\n"); sys.stdout.flush()
env.hard_exit(0)
"""


def _check_killed_store(case):
    """An earlier process was killed while storing the entry of a request (half of it written, or all of it written and the
    process gone before anything else happened).  Whatever it left in the directory, the next process that makes the same
    request gets the right answer, and the request after that is served from the cache without solving again."""
    out = Outcome()
    out.label("killed-store", "at=" + case["at"])
    i = NAMES.index("base")
    d = tempfile.mkdtemp(prefix="c15-killed-", dir=str(env.scratch()))
    try:
        r = subprocess.run([sys.executable, "-c", _KILLED, str(env.SRC), str(env.VERIF), d, str(i), case["at"]],
                           capture_output=True, text=True, env=dict(os.environ, PYTHONHASHSEED="13579"), timeout=600)
        if "killed" not in r.stdout:
            if "store-not-reached" in r.stdout:
                out.label("store-not-reached")
                return out
            raise RuntimeError(f"C15 killed-store child failed: {r.stderr[-600:]}")
        left = sorted(os.listdir(d))
        out.detail = {"left_behind": left}
        for rep in (1, 2, 3):
            log = []
            try:
                got = _solve(REQUESTS[i][1], cache=_recording_cache(d, log))
            except Exception as e:
                out.bad(f"request {rep} after a process was killed while storing the same entry ({case['at']}; it left {left}) "
                        f"raised {type(e).__name__}: {e}")
                break
            diff = _same(got, _uncached(i))
            if diff:
                out.bad(f"request {rep} after a process was killed while storing the same entry ({case['at']}; it left {left}) "
                        f"differs from the uncached result: {diff}")
            if rep >= 2 and (("hit",) not in log or any(e[0] == "put" for e in log)):
                out.bad(f"request {rep} after a process was killed while storing the same entry ({case['at']}; it left {left}) "
                        f"was solved again instead of being served from the cache (log {log})")
                break
        out.nontrivial = True
    finally:
        shutil.rmtree(d, ignore_errors=True)
    return out


def _check_interface(case):
    """The cache attached where users attach it: run_bldfm_single(config, tower, cache=...) returns exactly what the same call
    returns without a cache - on the miss that stores the entry and on the hit that reads it back."""
    from bldfm import parse_config_dict, run_bldfm_single
    from bldfm.cache import GreensFunctionCache

    out = Outcome()
    out.label("interface-level", "weak-wind" if case["ws"] < 1 else "ordinary-wind")
    dom = {"nx": 12, "ny": 10, "xmax": 120.0, "ymax": 150.0, "nz": 6, "modes": [12, 10], "ref_lat": 48.0, "ref_lon": 11.0}
    R = 6_371_000.0
    if case["levels"]:
        dom["output_levels"] = case["levels"]
    cfg = parse_config_dict({
        "domain": dom, "towers": [{"name": "T", "z_m": 3.0, "lat": 48.0 + float(np.degrees(45.0 / R)),
                                     "lon": 11.0 + float(np.degrees(70.0 / (R * np.cos(np.radians(48.0)))))}],
        "met": {"ustar": 0.31, "mol": -87.0, "wind_speed": case["ws"], "wind_dir": case["wd"]},
        "solver": {"closure": "MOST", "footprint": True, "precision": "double"},
    })
    d = tempfile.mkdtemp(prefix="c15-iface-", dir=str(env.scratch()))
    try:
        ref = run_bldfm_single(cfg, cfg.towers[0])
        cache = GreensFunctionCache(d)
        for what in ("miss that stores the entry", "hit that reads it back", "hit through a re-opened cache"):
            if what.startswith("hit through"):
                cache = GreensFunctionCache(d)
            try:
                got = run_bldfm_single(cfg, cfg.towers[0], cache=cache)
            except Exception as e:
                out.bad(f"run_bldfm_single with a cache attached ({what}) raised {type(e).__name__}: {e}")
                break
            for name in ("conc", "flx"):
                a, b = np.asarray(got[name]), np.asarray(ref[name])
                if a.shape != b.shape or a.dtype != b.dtype or not np.array_equal(a, b):
                    out.bad(f"run_bldfm_single with a cache attached ({what}): {name} is not what the same call returns without "
                            f"a cache (shapes {a.shape}/{b.shape}, max diff "
                            f"{np.abs(a - b).max() if a.shape == b.shape else float('nan'):.3e} of {np.abs(b).max():.3e}; "
                            f"wind {case['ws']} m/s from {case['wd']})")
            for k, (a, b) in enumerate(zip(got["grid"], ref["grid"])):
                if not np.array_equal(np.asarray(a), np.asarray(b)):
                    out.bad(f"run_bldfm_single with a cache attached ({what}): grid array {k} differs from the uncached call")
        if not any(n.endswith(".npz") for n in os.listdir(d)):
            out.bad("run_bldfm_single with a cache attached stored nothing")
        out.nontrivial = True
    finally:
        shutil.rmtree(d, ignore_errors=True)
    return out


def _check_interleave(case):
    """A second process opens the same directory (and solves there) while this one is in the middle of storing an entry:
    the temporary file is written, the final name not yet in place.  Neither process may fail, both get the right answer."""
    import numpy

    out = Outcome()
    out.label("interleaved-store", "other=" + case["other"])
    i = NAMES.index("base")
    if case["other"] == "forked-same-instance":
        return _check_forked_instance(out, i)
    others = {"construct-only": [], "same-request": [i], "another-request": [NAMES.index("meas_pt")]}[case["other"]]
    d = tempfile.mkdtemp(prefix="c15-inter-", dir=str(env.scratch()))
    orig = numpy.savez
    child = {}

    def savez(*a, **k):
        r = orig(*a, **k)
        if "r" not in child:  # once, after the temporary file has its full content
            child["r"] = subprocess.run([sys.executable, "-c", _INTERLEAVE, str(env.SRC), str(env.VERIF), d,
                                         ",".join(str(v) for v in others)], capture_output=True, text=True,
                                        env=dict(os.environ, PYTHONHASHSEED="24680"), timeout=600)
        return r

    try:
        from bldfm.cache import GreensFunctionCache

        cache = GreensFunctionCache(d)
        numpy.savez = savez
        try:
            got = _solve(REQUESTS[i][1], cache=cache)
        except Exception as e:
            out.bad(f"a solve whose store was overlapped by another process opening the directory ({case['other']}) raised "
                    f"{type(e).__name__}: {e}")
            got = None
        finally:
            numpy.savez = orig
        if "r" not in child:
            out.label("store-not-reached")
            return out
        if "done" not in child["r"].stdout:
            out.bad(f"the overlapping process ({case['other']}) failed: {child['r'].stderr[-400:]}")
        if got is not None and _same(got, _uncached(i)):
            out.bad(f"overlapped solve differs from the uncached result: {_same(got, _uncached(i))}")
        try:
            again = _solve(REQUESTS[i][1], cache=GreensFunctionCache(d))
            if _same(again, _uncached(i)):
                out.bad(f"solve after an overlapped store differs from the uncached result: {_same(again, _uncached(i))}")
        except Exception as e:
            out.bad(f"solve after an overlapped store raised {type(e).__name__}: {e}")
        out.nontrivial = True
    finally:
        numpy.savez = orig
        shutil.rmtree(d, ignore_errors=True)
    return out


def _check_forked_instance(out, i):
    """One cache OBJECT, created before a fork, used by parent and child for the same request at overlapping times (a
    pool whose workers inherit the cache): while the parent is between writing its temporary file and renaming it, the
    forked child stores the same entry through the inherited object.  Neither may fail."""
    import numpy

    from bldfm.cache import GreensFunctionCache

    d = tempfile.mkdtemp(prefix="c15-fork-", dir=str(env.scratch()))
    orig = numpy.savez
    state = {}

    def savez(*a, **k):
        r = orig(*a, **k)
        if "pid" not in state and os.getpid() == state["parent"]:
            state["pid"] = pid = os.fork()
            if pid == 0:  # child: same cache object, same request
                code = 0
                try:
                    numpy.savez = orig
                    got = _solve(REQUESTS[i][1], cache=cache)
                    code = 3 if _same(got, _uncached(i)) else 0
                except BaseException:
                    code = 4
                os._exit(code)
            _, status = os.waitpid(pid, 0)
            state["child"] = os.waitstatus_to_exitcode(status)
        return r

    try:
        cache = GreensFunctionCache(d)
        state["parent"] = os.getpid()
        _uncached(i)  # memo filled before the fork so that the child can compare
        numpy.savez = savez
        try:
            got = _solve(REQUESTS[i][1], cache=cache)
        except Exception as e:
            out.bad(f"a solve whose store was overlapped by a forked child storing the same entry through the same cache object "
                    f"raised {type(e).__name__}: {e}")
            got = None
        finally:
            numpy.savez = orig
        if "child" not in state:
            out.label("store-not-reached")
            return out
        if state["child"] != 0:
            out.bad(f"the forked child using the inherited cache object {'raised' if state['child'] == 4 else 'got a wrong result' if state['child'] == 3 else 'exited with ' + str(state['child'])}")
        if got is not None and _same(got, _uncached(i)):
            out.bad(f"overlapped solve differs from the uncached result: {_same(got, _uncached(i))}")
        again = _solve(REQUESTS[i][1], cache=GreensFunctionCache(d))
        if _same(again, _uncached(i)):
            out.bad(f"solve after an overlapped store differs from the uncached result: {_same(again, _uncached(i))}")
        out.nontrivial = True
    finally:
        numpy.savez = orig
        shutil.rmtree(d, ignore_errors=True)
    return out


def _check_xproc(case):
    out = Outcome()
    out.label("cross-process")
    d = tempfile.mkdtemp(prefix="c15-xproc-", dir=str(env.scratch()))
    try:
        r = subprocess.run([sys.executable, "-c", _XPROC, str(env.SRC), str(env.VERIF), d], capture_output=True, text=True,
                           env=dict(os.environ, PYTHONHASHSEED="987654"), timeout=600)  # another process = another string-hash salt
        if "populated" not in r.stdout:
            out.bad(f"a second process solving every request with the cache attached failed: {r.stderr[-400:]}")
            return out
        log = []
        cache = _recording_cache(d, log)
        for i, (name, req) in enumerate(REQUESTS):
            del log[:]
            try:
                got = _solve(req, cache=cache)
            except Exception as e:
                out.bad(f"solve({name}) on a directory populated by another process raised {type(e).__name__}: {e}")
                continue
            diff = _same(got, _uncached(i))
            if diff:
                out.bad(f"solve({name}) served from a directory populated by another process differs from the uncached result: {diff}")
            if req["footprint"] and (("hit",) not in log or any(e[0] == "put" for e in log)):
                out.bad(f"solve({name}) was not served from the entry stored by the other process (log {log})")
        out.nontrivial = True
    finally:
        shutil.rmtree(d, ignore_errors=True)
    return out


def check_case(case):
    if case["kind"] == "cuts":
        return _check_cuts(case)
    if case["kind"] == "xproc":
        return _check_xproc(case)
    if case["kind"] == "interleave":
        return _check_interleave(case)
    if case["kind"] == "killed-store":
        return _check_killed_store(case)
    if case["kind"] == "interface":
        return _check_interface(case)
    h = History()
    try:
        fails = []
        for op in case["steps"]:
            fails = h.apply(list(op))
            if fails:
                break
        return h.outcome(fails)
    finally:
        h.close()
