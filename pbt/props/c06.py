"""C06 - horizontal translation equivariance, point reflection, re-centring."""

import numpy as np
from hypothesis import strategies as st

from .. import gen, sut, tol
from ..core import Outcome

ID = "C06"
LEVEL = "exploration"
RULE = (
    "Hypothesis draws profiles (closures/free/const; oblique and turning winds), a periodic grid nx,ny in 2..10 with dx != dy "
    "(halo=0), mode counts below/at/above/default, 1..2 levels, a source, integer cell shifts (sx,sy) in [-n, n] (wrap-around "
    "included), and an on-grid tower. Oracles: S(roll(q0,s)) == roll(S(q0),s); footprint(tower+s) == roll(footprint(tower), s); "
    "footprint_m[j,i] == R[(2jm-j) mod ny, (2im-i) mod nx] with R the dispersion response to a unit source in the tower cell; for "
    "even nx,ny a dispersion run with meas_pt on the grid returns roll(field, centre - tower), so out[ny/2,nx/2] == field[jm,im]; "
    "with a halo (default / whole / fractional cells) the footprints for two on-grid towers agree on the overlap of the window "
    "shifted by their cell offset, and the footprint is the point reflection of the unit-source response inside the window. "
    "Non-trivial = shift non-zero modulo the grid in at least one axis and a source that is not translation invariant; distinct = "
    "canonical JSON."
)
ASSUMPTIONS = [
    "source translation and re-centring are checked with halo = 0 (whole periodic domain observed); tower translation and point reflection also with halos, on the part of the window where both cells are visible",
    "footprints for measurement points between grid nodes are not asserted here (C02 asserts reciprocity for them against the forward run re-centred on the tower, C11 their registration at the surface level); dispersion re-centring on such a point is asserted through the Fourier shift of the components strictly inside the band",
    "shooting growth bounded by exp(13.8) by construction",
]
TOLERANCES = {"all": "(1e-12 + 4096*eps*G) * max|field|"}
BUDGET = {"quick": dict(examples=1000, shards=1), "thorough": dict(examples=10000, shards=16)}


def warmup():
    sut.warm()


@st.composite
def _case(draw):
    case = draw(gen.problem(square_cells=0.15))
    z, _ = gen.build_profiles(case["prof"])
    if draw(st.integers(0, 2)) == 0:  # even sizes for the re-centring sub-check
        case["nx"] += case["nx"] % 2
        case["ny"] += case["ny"] % 2
    case["modes"] = draw(gen.modes(case))
    case["levels"] = draw(gen.levels(len(z), 1, 2))
    case["q"] = draw(gen.source(case["ny"], case["nx"]))
    case["tower"] = draw(gen.tower(case))
    case["shift"] = [draw(st.integers(-case["nx"], case["nx"])), draw(st.integers(-case["ny"], case["ny"]))]
    case["bg"] = draw(st.sampled_from([0.0, 1.0]))
    case["halo"] = draw(gen.halo(case, kinds=("none", "cells", "frac")))
    # the second tower may sit a few cells OUTSIDE the source domain (a tower next to the mapped area), inside the halo
    case["tower2"] = [draw(st.integers(-2, case["nx"] + 1)), draw(st.integers(-2, case["ny"] + 1))]
    return case


def strategy(tier):
    return _case()


def check_case(case):
    out = Outcome()
    z, prof = gen.build_profiles(case["prof"])
    q0 = np.asarray(case["q"], float)
    ny, nx = q0.shape
    dom = gen.domain_of(case)
    dx, dy = gen.spacing_of(case)
    lv = case["levels"]
    sx, sy = case["shift"]
    im, jm = case["tower"]
    kw = dict(modes=gen.modes_arg(case["modes"]), halo=0.0, precision="double")
    kx, ky = tol.max_wavenumbers(nx, ny, dx, dy)
    logG = tol.log_growth(z, prof, kx, ky)
    rel = tol.rel_tol(logG)
    out.label(f"prof={case['prof']['kind']}", "modes=default" if case["modes"] is None else "modes=explicit",
              "even-grid" if nx % 2 == 0 and ny % 2 == 0 else "odd-grid",
              "wrap" if (abs(sx) >= nx or abs(sy) >= ny) else "nowrap")

    def roll(a, s):
        return np.roll(np.roll(a, s[1], axis=-2), s[0], axis=-1)

    fs0, cs0 = tol.natural_scales(q0, z, prof, case["bg"])

    def cmp(name, a, b, extra=0.0):
        a, b = sut.as3d(a), sut.as3d(b)
        # footprints and unit responses have their own O(1/N) magnitude; dispersion fields inherit the source's
        floor = 0.0 if "footprint" in name else (cs0 if "conc" in name else fs0)
        scale = max(tol.maxabs(a), tol.maxabs(b), extra, floor)
        err = tol.maxabs(a - b)
        if not err <= rel * scale:
            out.bad(f"{name}: max difference {err:.3e} > {rel * scale:.3e} (shift {(sx, sy)}, tower {(im, jm)}, grid {nx}x{ny})")

    # 1. source translation
    _, c0, f0 = sut.S(q0, z, prof, dom, lv, srf_bg_conc=case["bg"], **kw)
    _, c1, f1 = sut.S(roll(q0, (sx, sy)), z, prof, dom, lv, srf_bg_conc=case["bg"], **kw)
    cmp("conc of translated source vs translated conc", c1, roll(sut.as3d(c0), (sx, sy)), abs(case["bg"]))
    cmp("flux of translated source vs translated flux", f1, roll(sut.as3d(f0), (sx, sy)))

    # 2. tower translation
    mp = (im * dx, jm * dy)
    im2, jm2 = (im + sx) % nx, (jm + sy) % ny
    _, cf, ff = sut.S(q0, z, prof, dom, lv, meas_pt=mp, footprint=True, **kw)
    _, cf2, ff2 = sut.S(q0, z, prof, dom, lv, meas_pt=(im2 * dx, jm2 * dy), footprint=True, **kw)
    cmp("footprint at translated tower vs translated footprint (conc)", cf2, roll(sut.as3d(cf), (sx, sy)))
    cmp("footprint at translated tower vs translated footprint (flux)", ff2, roll(sut.as3d(ff), (sx, sy)))

    # 3. footprint = point reflection about the tower of the unit-source response
    d = np.zeros((ny, nx))
    d[jm, im] = 1.0
    _, cr, fr = sut.S(d, z, prof, dom, lv, **kw)
    iy = (2 * jm - np.arange(ny)) % ny
    ix = (2 * im - np.arange(nx)) % nx
    cmp("footprint vs reflected unit response (conc)", cf, sut.as3d(cr)[:, iy][:, :, ix])
    cmp("footprint vs reflected unit response (flux)", ff, sut.as3d(fr)[:, iy][:, :, ix])

    # 4. dispersion re-centring (even sizes, tower not at the origin)
    if nx % 2 == 0 and ny % 2 == 0 and (im, jm) != (0, 0):
        out.label("recentre-checked")
        _, cc, fc = sut.S(q0, z, prof, dom, lv, meas_pt=mp, srf_bg_conc=case["bg"], **kw)
        s = (nx // 2 - im, ny // 2 - jm)
        cmp("re-centred conc vs roll(conc, centre - tower)", cc, roll(sut.as3d(c0), s), abs(case["bg"]))
        cmp("re-centred flux vs roll(flux, centre - tower)", fc, roll(sut.as3d(f0), s))
        fcc = sut.as3d(fc)[:, ny // 2, nx // 2]
        if not tol.maxabs(fcc - sut.as3d(f0)[:, jm, im]) <= rel * max(tol.maxabs(f0), fs0):
            out.bad("value at the domain centre of the re-centred run is not the field value at the measurement point")

    # 4b. re-centring on a point BETWEEN grid nodes: on the bare periodic domain the shifted field is the un-shifted one
    #     with every Fourier component turned by exp(i k.(point - centre)) - asserted for the components strictly inside
    #     the retained band (the unpaired Nyquist ones lose their imaginary part on the way back)
    mm = kw["modes"] if kw["modes"] is not None else (512, 512)
    kxi, kyi = np.fft.fftfreq(nx, 1.0 / nx), np.fft.fftfreq(ny, 1.0 / ny)
    band = (np.abs(kyi) < min(mm[1], ny) / 2.0)[:, None] & (np.abs(kxi) < min(mm[0], nx) / 2.0)[None, :]
    KXo, KYo = np.meshgrid(2 * np.pi * kxi / dom[0], 2 * np.pi * kyi / dom[1])
    # (a point inside the window, and one south-west of the origin: coordinates are not assumed to be positive)
    for mpo in (((im + 0.3) * dx, (jm + 0.6) * dy), (-(1.3 + im % 2) * dx, -0.6 * dy)):
        _, co, fo = sut.S(q0, z, prof, dom, lv, meas_pt=mpo, srf_bg_conc=case["bg"], **kw)
        ph = np.exp(1j * (KXo * (mpo[0] - dom[0] / 2) + KYo * (mpo[1] - dom[1] / 2)))
        for name, a, b in (("conc", sut.as3d(co), sut.as3d(c0)), ("flux", sut.as3d(fo), sut.as3d(f0))):
            A = np.fft.fft2(a, axes=(1, 2)) * band
            B = np.fft.fft2(b, axes=(1, 2)) * ph * band
            scale = max(tol.maxabs(np.fft.fft2(b, axes=(1, 2))), (cs0 if name == "conc" else fs0) * nx * ny)
            if not tol.maxabs(A - B) <= rel * scale:
                out.bad(f"re-centring on the off-node point {mpo}: in-band {name} spectrum differs from the phase-shifted spectrum of "
                        f"the un-shifted run by {tol.maxabs(A - B):.3e} (> {rel * scale:.3e}; grid {nx}x{ny}, modes {kw['modes']})")
    out.label("recentre-off-node-checked")

    # 5. with a halo the returned window is a crop of the padded periodic domain: moving the tower by whole
    #    cells moves the footprint by the same cells wherever both cells lie inside the window, and the
    #    footprint is still the point reflection of the unit-source response about the tower
    if "halo" in case:
        hv = case["halo"]["value"]
        kwh = dict(kw, halo=hv)
        ia, ja = case["tower"]
        ib, jb = case["tower2"]
        pxh, pyh, _ = gen.pad_widths(case, hv)
        # keep the second tower inside the padded periodic domain (the halo is what makes room for it)
        ib = min(max(ib, -pxh), nx - 1 + pxh)
        jb = min(max(jb, -pyh), ny - 1 + pyh)
        tx, ty = ib - ia, jb - ja
        if not (0 <= ib < nx and 0 <= jb < ny):
            out.label("tower2-outside-domain")
        _, ca, fa = sut.S(q0, z, prof, dom, lv, meas_pt=(ia * dx, ja * dy), footprint=True, **kwh)
        _, cb, fb = sut.S(q0, z, prof, dom, lv, meas_pt=(ib * dx, jb * dy), footprint=True, **kwh)
        ca, fa, cb, fb = (sut.as3d(a) for a in (ca, fa, cb, fb))
        if fa.shape == fb.shape == (len(lv), ny, nx):
            # b[j, i] == a[j - ty, i - tx] on the overlap
            def ov(a_, b_):
                ya = slice(max(0, -ty), ny - max(0, ty))
                yb = slice(max(0, ty), ny - max(0, -ty))
                xa = slice(max(0, -tx), nx - max(0, tx))
                xb = slice(max(0, tx), nx - max(0, -tx))
                return a_[:, ya, xa], b_[:, yb, xb]

            for name, a_, b_ in (("conc", ca, cb), ("flux", fa, fb)):
                if abs(tx) >= nx or abs(ty) >= ny:
                    break  # the two windows do not overlap
                A, B = ov(a_, b_)
                scale = max(tol.maxabs(a_), tol.maxabs(b_))
                if A.size and not tol.maxabs(A - B) <= rel * scale:
                    out.bad(f"halo {hv}: footprint {name} for tower {(ib, jb)} is not the footprint for {(ia, ja)} moved by "
                            f"{(tx, ty)} cells (max difference {tol.maxabs(A - B):.3e} > {rel * scale:.3e})")
            d2 = np.zeros((ny, nx))
            d2[ja, ia] = 1.0
            _, cr2, fr2 = sut.S(d2, z, prof, dom, lv, **kwh)
            cr2, fr2 = sut.as3d(cr2), sut.as3d(fr2)
            jj = 2 * ja - np.arange(ny)
            ii = 2 * ia - np.arange(nx)
            okj = (jj >= 0) & (jj < ny)
            oki = (ii >= 0) & (ii < nx)
            for name, fp_, r_ in (("conc", ca, cr2), ("flux", fa, fr2)):
                A = fp_[:, okj][:, :, oki]
                B = r_[:, jj[okj]][:, :, ii[oki]]
                scale = max(tol.maxabs(fp_), tol.maxabs(r_))
                if A.size and not tol.maxabs(A - B) <= rel * scale:
                    out.bad(f"halo {hv}: footprint {name} for tower {(ia, ja)} is not the point reflection of the unit-source "
                            f"response about the tower (max difference {tol.maxabs(A - B):.3e} > {rel * scale:.3e})")
        else:
            out.bad(f"halo {hv}: footprint shapes {fa.shape}, {fb.shape}")
        out.label(f"halo={case['halo']['kind']}", "tower-at-origin" if (ia, ja) == (0, 0) or (ib, jb) == (0, 0) else "tower-off-origin")

    varying = tol.maxabs(q0 - q0.flat[0]) > 0
    out.nontrivial = bool(varying and (sx % nx != 0 or sy % ny != 0))
    if sx % nx != 0 and sy % ny != 0:
        out.label("shift-both-axes")
    out.detail = {"logG": logG, "rel_tol": rel}
    return out
