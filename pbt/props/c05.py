"""C05 - uniform profiles: analytic mode == closed form (part A); the numerical mode
converges to it at third order (part B)."""

import math

import numpy as np
from hypothesis import strategies as st

from .. import gen, oracles, sut, tol
from ..core import Outcome

ID = "C05"
LEVEL = "exploration"
RULE = (
    "Part A (kind=A): Hypothesis draws constant (u,v,Kx,Ky,Kz), a vertical grid, nx,ny in 2..10 (dx != dy), halo "
    "{default,0,whole,fractional}, mode counts below/at/above/default, a source, footprint (on-grid tower) or dispersion (meas_pt "
    "(0,0), or on-grid with even sizes), 1..4 levels in any order, a background; analytic=True must equal an independent numpy.fft "
    "assembly of the half-space closed form (pad, retain wavenumbers, exp(-lambda h), 1/(Kz lambda), linear mean profile, re-centring "
    "/ point reflection by their stated meaning, crop). Part B (kind=B): constant profiles, uniform or logarithmic vertical grids "
    "with n, 2n, 4n layers (n multiple of 4, 8..48) chosen so that max|T|dz^2/Kz <= 0.5 on the coarsest grid and shooting growth "
    "<= exp(10); numerical vs analytic error E (max-norm over the whole column on the coarsest grid's heights / field max, the larger of the conc and flux errors) must shrink by >= 5.5 per "
    "halving wherever E(coarser) > 1e-7. Non-trivial: A = source with >= 2 non-zero cells; B = at least one asserted halving; "
    "distinct = canonical JSON."
)
ASSUMPTIONS = [
    "pad widths int(halo/dx), int(halo/dy) (both neighbours accepted within 1e-9 of a whole number)",
    "order asserted for r = max|T|dz^2/Kz <= 0.5 (strictly inside the property's resolved regime r <= 1, where pre-asymptotic ratios of the correct scheme go down to 5.35) and growth <= exp(10) so that rounding stays below 1e-7",
]
TOLERANCES = {"A": "1e-11 * max(|field|, |background|)", "B": "ratio E(n)/E(2n) >= 5.5 (design order 3 -> 8)"}
BUDGET = {"quick": dict(examples=1200, shards=1), "thorough": dict(examples=10000, shards=16)}


def warmup():
    sut.warm()


# ------------------------------------------------------------------ strategies


@st.composite
def _case_a(draw):
    case = draw(gen.problem(kinds=("const",)))
    z = case["prof"]["z"]
    case["kind"] = "A"
    case["halo"] = draw(gen.halo(case))
    px, py, _ = gen.pad_widths(case, case["halo"]["value"])
    case["modes"] = draw(gen.modes(case, px, py))
    case["levels"] = draw(gen.levels(len(z), 1, 4, ascending=False))
    case["scalar_level"] = draw(st.booleans())
    case["q"] = draw(gen.source(case["ny"], case["nx"]))
    case["footprint"] = draw(st.booleans())
    case["tower"] = draw(gen.tower(case))
    case["recentre"] = draw(st.booleans())
    case["bg"] = draw(st.sampled_from([0.0, 1.5, -2.0, 390.0]))
    return case


@st.composite
def _case_b(draw):
    u, v = draw(gen.fl(-6.0, 6.0)), draw(gen.fl(-6.0, 6.0))
    Kx, Ky, Kz = draw(gen.logfl(0.1, 5.0)), draw(gen.logfl(0.1, 5.0)), draw(gen.logfl(0.1, 5.0))
    z0 = draw(gen.logfl(0.01, 1.0))
    H = draw(gen.logfl(2.0, 40.0))
    grid = draw(st.sampled_from(["uniform", "log", "uniform", "log", "uniform-int"]))
    nx, ny = draw(st.integers(3, 8)), draw(st.integers(3, 8))
    dx = H * draw(gen.logfl(0.5, 20.0))
    dy = dx * draw(gen.logfl(0.5, 2.0))
    r0 = draw(gen.logfl(0.03, 0.5))
    case = {"kind": "B", "u": u, "v": v, "Kx": Kx, "Ky": Ky, "Kz": Kz, "z0": z0, "H": H, "grid": grid,
            "nx": nx, "ny": ny, "frac": draw(st.sampled_from([0.25, 0.5, 0.75, 1.0]))}
    if grid == "uniform-int":
        # whole-metre nodes passed as an integer array: dz = 4k, 2k, k metres at n, 2n, 4n layers
        k = draw(st.integers(1, 2))
        n_int = draw(st.sampled_from([8, 12, 16]))
        case["z0"], case["H"] = 1.0, float(4 * k * n_int)
    # construct (dx, dy, n) inside the regime
    for _ in range(80):
        n = _layers_for(case, dx, dy, r0)
        if grid == "uniform-int":
            n = n_int if _res(case, dx, dy, n_int) <= r0 else 4096
        g = _growth(case, dx, dy)
        if n <= 48 and g <= 10.0:
            break
        dx, dy = dx * 1.15, dy * 1.15
    case["dx"], case["dy"], case["n"] = float(f"{dx:.6g}"), float(f"{dy:.6g}"), int(n)
    case["q"] = draw(gen.source(ny, nx, kinds=("dense", "sparse", "delta")))
    return case


def strategy(tier):
    return st.one_of(_case_a(), _case_a(), _case_a(), _case_b())


# ------------------------------------------------------------------ part B helpers


def _zgrid(case, n):
    z0, zt = case["z0"], case["z0"] + case["H"]
    if case["grid"] == "uniform-int":
        return np.rint(np.linspace(z0, zt, n + 1)).astype(np.int64)
    if case["grid"] == "uniform":
        return np.linspace(z0, zt, n + 1)
    return z0 * (zt / z0) ** np.linspace(0.0, 1.0, n + 1)


def _tmax(case, dx, dy):
    kx, ky = math.pi / dx, math.pi / dy
    best = 0.0
    for sx in (1, -1):
        for fx, fy in ((1, 1), (1, 0), (0, 1)):
            lx, ly = sx * fx * kx, fy * ky
            best = max(best, abs(-(case["Kx"] * lx**2 + case["Ky"] * ly**2) - 1j * (case["u"] * lx + case["v"] * ly)))
    return best


def _res(case, dx, dy, n):
    dz = np.diff(_zgrid(case, n))
    return float(_tmax(case, dx, dy) * np.max(dz) ** 2 / case["Kz"])


def _layers_for(case, dx, dy, r0):
    n = 8
    while n <= 4096 and _res(case, dx, dy, n) > r0:
        n += 4
    return n


def _growth(case, dx, dy):
    lam = np.sqrt(_tmax(case, dx, dy) / case["Kz"])  # |lambda| >= Re lambda
    return float(lam * case["H"])


# ------------------------------------------------------------------ checks


def check_case(case):
    return _check_a(case) if case["kind"] == "A" else _check_b(case)


def _check_a(case):
    out = Outcome()
    p = case["prof"]
    z, prof = gen.build_profiles(p)
    const = (p["u"], p["v"], p["Kx"], p["Ky"], p["Kz"])
    q0 = np.asarray(case["q"], float)
    ny, nx = q0.shape
    dom = gen.domain_of(case)
    dx, dy = gen.spacing_of(case)
    hv = case["halo"]["value"]
    px, py, h = gen.pad_widths(case, hv)
    fpm = case["footprint"]
    im, jm = case["tower"]
    if fpm:
        mp = (im * dx, jm * dy)
    elif case["recentre"] and nx % 2 == 0 and ny % 2 == 0:
        mp = (im * dx, jm * dy)
    else:
        mp = (0.0, 0.0)
    lv = list(case["levels"])
    lv_arg = lv[0] if (case["scalar_level"] and len(lv) == 1) else lv
    modes = gen.modes_arg(case["modes"])
    out.label("A", "footprint" if fpm else ("dispersion-recentred" if mp != (0.0, 0.0) else "dispersion"),
              f"halo={case['halo']['kind']}", f"levels={len(lv)}",
              "modes=default" if case["modes"] is None else "modes=explicit")

    grid, conc, flx = sut.S(q0, z, prof, dom, lv_arg, modes=modes, meas_pt=mp, srf_bg_conc=case["bg"], footprint=fpm,
                            analytic=True, halo=hv, precision="double")
    conc, flx = sut.as3d(conc), sut.as3d(flx)
    if flx.shape != (len(lv), ny, nx):
        out.bad(f"analytic result has shape {flx.shape}, expected {(len(lv), ny, nx)}")
        return out

    def widths(w, d):
        r = h / d
        c = {w}
        if abs(r - round(r)) < 1e-9:
            c.add(int(round(r)))
        return sorted(c)

    nxe, nye = nx + 2 * px, ny + 2 * py
    one_axis_above = (modes[0] > nxe) != (modes[1] > nye)
    best = None
    for cx in widths(px, dx):
        for cy in widths(py, dy):
            for per_axis in ((False, True) if one_axis_above else (False,)):
                rc, rq = oracles.closed_form(q0, z, const, dom, lv, modes, mp, case["bg"], fpm, cx, cy,
                                             tower_cell=(im, jm), per_axis_clamp=per_axis)
                fscale = max(tol.maxabs(rq), 1.0 if fpm else tol.maxabs(q0), 1e-300)
                eq = tol.maxabs(rq - flx) / fscale
                ec = tol.maxabs(rc - conc) / max(tol.maxabs(rc), abs(case["bg"]), fscale * (z[-1] - z[0]) / p["Kz"])
                e = (max(eq, ec), eq, ec)
                best = e if best is None or e[0] < best[0] else best
    if not best[0] <= 1e-11:
        out.bad(f"analytic mode differs from the closed form: flux {best[1]:.3e}, conc {best[2]:.3e} of the field maximum "
                f"(levels {lv}, halo {hv}, modes {modes}, {'footprint' if fpm else 'dispersion'}, meas_pt {mp})")
    out.detail = {"err_flux": best[1], "err_conc": best[2]}
    out.nontrivial = int(np.count_nonzero(q0)) >= 2 or fpm
    return out


def _check_b(case):
    out = Outcome()
    n0 = case["n"]
    nx, ny = case["nx"], case["ny"]
    dom = (nx * case["dx"], ny * case["dy"])
    q0 = np.asarray(case["q"], float)
    r = _res(case, case["dx"], case["dy"], n0)
    g = _growth(case, case["dx"], case["dy"])
    out.label("B", f"grid={case['grid']}")
    if r > 0.5 or g > 10.0 or n0 > 48:
        out.label("B-outside-regime(skipped)")
        return out
    E = []
    for n in (n0, 2 * n0, 4 * n0):
        z = _zgrid(case, n)
        prof = tuple(np.full(n + 1, case[k]) for k in ("u", "v", "Kx", "Ky", "Kz"))
        # the error of the whole column, on the heights of the coarsest grid (present in every refinement): the error
        # at a single height can pass through a zero of the error function (ratio 5.05 at one level next to 8.9 at the
        # others, seen once in 40 000 thorough cases)
        lvl = [i * (n // n0) for i in range(n0 + 1)]
        kw = dict(modes=(nx + nx % 2, ny + ny % 2), halo=0.0, precision="double")
        _, cn, fn = sut.S(q0, z, prof, dom, lvl, **kw)
        _, ca, fa = sut.S(q0, z, prof, dom, lvl, analytic=True, **kw)
        E.append((tol.maxabs(cn - ca) / max(tol.maxabs(ca), 1e-300), tol.maxabs(fn - fa) / max(tol.maxabs(fa), 1e-300)))
    asserted = 0
    ratios = []
    # the error of the solution = the larger of the two relative field errors (a single field can have an accidentally
    # small leading coefficient on one grid: conc ratio 5.44 next to flux ratio 8.8 seen once in 160 000 thorough cases)
    Emax = [max(e) for e in E]
    for step in (0, 1):
        e1, e2 = Emax[step], Emax[step + 1]
        if e1 > 1e-7:
            asserted += 1
            ratio = e1 / max(e2, 1e-300)
            ratios.append(ratio)
            if not ratio >= 5.5:
                out.bad(f"error {e1:.3e} at {n0 * 2**step} layers -> {e2:.3e} at {n0 * 2**(step + 1)} layers: "
                        f"ratio {ratio:.2f} < 5.5 (third order gives ~8; {case['grid']} grid, r={r:.3f}; conc/flux errors {E[step]} -> {E[step + 1]})")
    out.detail = {"E": E, "r": r, "growth": g, "ratios": ratios}
    out.nontrivial = asserted > 0
    if asserted:
        out.label("B-asserted")
    return out
