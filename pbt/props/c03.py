"""C03 - level-by-level flux conservation, unit footprint sum, mean-concentration
resistance law, and halo == explicit zero padding."""

import math

import numpy as np
from hypothesis import strategies as st

from .. import gen, sut, tol
from ..core import Outcome

ID = "C03"
LEVEL = "exploration"
RULE = (
    "Hypothesis draws profiles (closures, free arrays, constants), grid nx,ny in 2..10 (dx != dy), modes below/at/above/default, "
    "1..5 levels in any order incl. surface and top, sign-changing sources with non-zero mean, background, on-grid tower (in the halo sub-check a third of the footprint cases put it one cell beyond the window, inside the halo), halo kind. "
    "Oracles with halo=0 (whole periodic domain returned): mean_xy flux[k] == mean source; sum footprint[k] == 1 and mean_xy of the concentration footprint == bg - R_k/N; mean_xy conc[k] == "
    "bg - mean(q0)*R_k with R_k the trapezoidal resistance on the given nodes (or any value at least as close to the exact integral "
    "of dz/Kz, where that is known in closed form). Halo: S(q0, halo=H) == crop(S(zero-padded q0 on the enlarged domain, halo=0, "
    "measurement point moved by the pad)), both modes. Non-trivial = non-zero mean source and (>= 2 levels or a halo with px != py); "
    "distinct = canonical JSON."
)
ASSUMPTIONS = [
    "pad widths are int(halo/dx), int(halo/dy) as documented; when halo/dx is within 1e-9 of a whole number both neighbouring widths are accepted",
    "shooting growth bounded by exp(13.8) by construction",
]
TOLERANCES = {
    "conservation": "(1e-12 + 4096*eps*G) * max|field|",
    "halo_equivalence": "max(1e-10, rounding model) * max|field| (enlarged-domain spacing differs in the last ulp)",
}
BUDGET = {"quick": dict(examples=1000, shards=1), "thorough": dict(examples=10000, shards=16)}


def warmup():
    sut.warm()


@st.composite
def _case(draw):
    case = draw(gen.problem(nmax=9))
    z, prof = gen.build_profiles(case["prof"])
    nz = len(z)
    case["halo"] = draw(gen.halo(case, kinds=("none", "zero", "cells", "frac", "frac")))
    px, py, _ = gen.pad_widths(case, case["halo"]["value"])
    case["modes"] = draw(gen.modes(case, px, py))
    lv = draw(gen.levels(nz, 1, 4, ascending=False))  # any order: each slot is judged by the height it reports
    if draw(st.booleans()):
        lv = list(dict.fromkeys(lv + [0, nz - 1]))
    case["levels"] = lv
    case["q"] = draw(gen.source(case["ny"], case["nx"], kinds=("sparse", "dense", "smooth", "delta")))
    case["tower"] = draw(gen.tower(case))
    case["bg"] = draw(st.sampled_from([0.0, 2.5, -1.0, 410.0, 400, 3]))  # ints stay ints in JSON
    # height-independent profiles are also solved with the closed form (analytic=True): same budget
    case["analytic"] = case["prof"]["kind"] == "const" and draw(st.booleans())
    case["fp_halo"] = draw(st.booleans())  # mode used for the halo-equivalence sub-check
    case["recentre"] = draw(st.booleans())
    # halo sub-check in footprint mode: the tower one cell beyond the window's east edge (x = xmax) or one cell south of it
    # (y = -dy) in a third of the cases - inside the halo, where the periodic box is the padded one
    case["tower_off"] = draw(st.sampled_from([None, None, "east", "south"]))
    return case


def strategy(tier):
    return _case()


def exact_resistance(p, z, prof, k):
    """Exact integral of dz/Kz from z[0] to z[k] where the profile family has a
    closed form (else None)."""
    Kz = prof[4]
    if k == 0:
        return 0.0
    if p["kind"] == "const" or (p["kind"] == "closure" and p["closure"] == "CONSTANT"):
        return float((z[k] - z[0]) / Kz[0])
    if p["kind"] == "closure":
        from scipy.integrate import quad

        zt, Kt = float(z[-1]), float(Kz[-1])
        if p["closure"] == "OAAHOC":
            c0 = Kt / zt
            return float(math.log(z[k] / z[0]) / c0)
        L = p["mol"]

        def phi(x):
            return 1 + 5 * x if x > 0 else (1 - 16 * x) ** -0.5

        c0 = Kt * phi(zt / L) / zt
        val, _ = quad(lambda s: phi(s / L) / (c0 * s), float(z[0]), float(z[k]), epsabs=0, epsrel=1e-12, limit=200)
        return float(val)
    return None


def check_case(case):
    out = Outcome()
    z, prof = gen.build_profiles(case["prof"])
    Kz = prof[4]
    q0 = np.asarray(case["q"], float)
    dom = gen.domain_of(case)
    dx, dy = gen.spacing_of(case)
    nx, ny = case["nx"], case["ny"]
    lv = case["levels"]
    mp = gen.meas_pt_of(case, case["tower"])
    modes = gen.modes_arg(case["modes"])
    kx, ky = tol.max_wavenumbers(nx, ny, dx, dy)
    logG = tol.log_growth(z, prof, kx, ky)
    rel = tol.rel_tol(logG)
    qbar = float(q0.mean())
    fs0, cs0 = tol.natural_scales(q0, z, prof, case["bg"])
    out.label(f"prof={case['prof']['kind']}", f"halo={case['halo']['kind']}", f"levels={len(lv)}")

    # ---- (a) conservation on the bare periodic domain
    _, conc, flx = sut.S(q0, z, prof, dom, lv, modes=modes, meas_pt=(0.0, 0.0), srf_bg_conc=case["bg"],
                         halo=0.0, precision="double", analytic=bool(case.get("analytic")))
    conc, flx = sut.as3d(conc), sut.as3d(flx)
    _, cfp, ffp = sut.S(q0, z, prof, dom, lv, modes=modes, meas_pt=mp, footprint=True, srf_bg_conc=case["bg"], halo=0.0,
                        precision="double", analytic=bool(case.get("analytic")))
    cfp, ffp = sut.as3d(cfp), sut.as3d(ffp)
    dz = np.diff(z)
    Rtrap = np.concatenate([[0.0], np.cumsum(dz * (0.5 / Kz[:-1] + 0.5 / Kz[1:]))])
    for k, l in enumerate(lv):
        fscale = max(tol.maxabs(flx[k]), abs(qbar), tol.maxabs(q0))
        if not abs(flx[k].mean() - qbar) <= rel * fscale:
            out.bad(f"level {l}: mean flux {flx[k].mean()!r} != mean source {qbar!r} (tol {rel * fscale:.2e})")
        s = float(ffp[k].sum())
        if not abs(s - 1.0) <= rel * max(1.0, nx * ny * tol.maxabs(ffp[k])):
            out.bad(f"level {l}: footprint weights sum to {s!r}, not 1")
        # the concentration footprint is the response to a unit source in one cell (mean flux 1/N) on top of the background
        gfp = float(cfp[k].mean())
        wfp = case["bg"] - Rtrap[l] / (nx * ny)
        fsc = max(tol.maxabs(cfp[k]), abs(case["bg"]), Rtrap[l] / (nx * ny))
        if not abs(gfp - wfp) <= rel * fsc:
            Rex = exact_resistance(case["prof"], z, prof, l)
            Rcode = (case["bg"] - gfp) * nx * ny
            if not (Rex is not None and abs(Rcode - Rex) <= abs(Rtrap[l] - Rex) + rel * fsc * nx * ny):
                out.bad(f"level {l}: mean of the concentration footprint {gfp!r} != background - resistance / cells = {wfp!r} "
                        f"(background {case['bg']}, trapezoidal resistance {Rtrap[l]!r}, {nx * ny} cells)")
        got = float(conc[k].mean())
        want = case["bg"] - qbar * Rtrap[l]
        cscale = max(tol.maxabs(conc[k]), abs(case["bg"]), abs(qbar) * Rtrap[l], cs0)
        if not abs(got - want) <= rel * cscale:
            # an equal-or-better quadrature of the exact resistance is not a violation
            Rex = exact_resistance(case["prof"], z, prof, l)
            ok = False
            if Rex is not None and qbar != 0.0:
                Rcode = (case["bg"] - got) / qbar
                ok = abs(Rcode - Rex) <= abs(Rtrap[l] - Rex) + rel * cscale / abs(qbar)
            if not ok:
                out.bad(
                    f"level {l}: mean concentration {got!r} != background - mean flux * resistance = {want!r} "
                    f"(trapezoidal resistance {Rtrap[l]!r}, exact {Rex!r})"
                )

    # ---- (b) halo == explicit padding
    hv = case["halo"]["value"]
    px, py, h = gen.pad_widths(case, hv)
    fpm = case["fp_halo"]
    # dispersion re-centring is only documented for even sizes (domain centre on the grid)
    recentre = case["recentre"] and not fpm
    mp_h = mp if (fpm or recentre) else (0.0, 0.0)
    off = bool(fpm and case.get("tower_off") and px >= 1 and py >= 1)
    if off:
        im_, jm_ = case["tower"]
        mp_h = gen.meas_pt_of(case, (nx, jm_) if case["tower_off"] == "east" else (im_, -1))
        out.label("halo-sub-tower-beyond-window")
    _, ch, fh = sut.S(q0, z, prof, dom, lv, modes=modes, meas_pt=mp_h, srf_bg_conc=case["bg"], footprint=fpm,
                      halo=hv, precision="double", analytic=bool(case.get("analytic")))
    ch, fh = sut.as3d(ch), sut.as3d(fh)
    if fh.shape[1:] != q0.shape:
        out.bad(f"halo call returned shape {fh.shape}, source is {q0.shape}")
    else:
        def widths(w, d):
            r = h / d
            c = {w}
            if abs(r - round(r)) < 1e-9:
                c.add(int(round(r)))
            return sorted(c)

        cands = [(cx, cy) for cx in widths(px, dx) for cy in widths(py, dy)]
        best = None
        for cx, cy in cands:
            qp = np.pad(q0, ((cy, cy), (cx, cx)))
            domp = ((nx + 2 * cx) * dx, (ny + 2 * cy) * dy)
            mpp = (mp_h[0] + cx * dx, mp_h[1] + cy * dy) if (fpm or recentre) else (0.0, 0.0)
            if recentre and mp_h == (0.0, 0.0):
                mpp = (0.0, 0.0)
            _, cp, fp = sut.S(qp, z, prof, domp, lv, modes=modes, meas_pt=mpp, srf_bg_conc=case["bg"],
                              footprint=fpm, halo=0.0, precision="double", analytic=bool(case.get("analytic")))
            cp, fp = sut.as3d(cp), sut.as3d(fp)
            # (with the tower beyond the window the window may hold next to nothing of the footprint: differences are then
            #  rounding relative to the field where it is large, i.e. to the maximum over the whole padded domain)
            ffloor, cfloor = (tol.maxabs(fp), tol.maxabs(cp)) if off else (0.0, 0.0)
            cp = cp[:, cy : cy + ny, cx : cx + nx]
            fp = fp[:, cy : cy + ny, cx : cx + nx]
            relh = max(rel, 1e-10)
            e = max(
                tol.maxabs(fp - fh) / max(tol.maxabs(fp), 1e-300 if fpm else fs0, 1e-300, ffloor),
                tol.maxabs(cp - ch) / max(tol.maxabs(cp), abs(case["bg"]), 1e-300 if fpm else cs0, 1e-300, cfloor),
            )
            best = e if best is None else min(best, e)
        if not best <= max(rel, 1e-10):
            out.bad(
                f"halo={hv} ({'footprint' if fpm else 'dispersion'}, pad {px}x{py} cells) differs from explicit zero "
                f"padding + halo=0 by {best:.3e} of the field maximum"
            )
        out.detail["halo_equiv_err"] = best
    out.label("halo-sub=footprint" if fpm else ("halo-sub=dispersion-recentred" if recentre else "halo-sub=dispersion"))
    if px != py:
        out.label("px!=py")
    out.nontrivial = qbar != 0.0 and (len(lv) >= 2 or px != py)
    out.detail.update({"logG": logG, "rel_tol": rel})
    return out
