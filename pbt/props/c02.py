"""C02 - reciprocity: sum(source x footprint) == forward run sampled at the tower."""

import numpy as np
from hypothesis import strategies as st

from .. import gen, sut, tol
from ..core import Outcome

ID = "C02"
LEVEL = "exploration"
RULE = (
    "Hypothesis draws profiles (closure-generated MOST/MOSTM/CONSTANT/OAAHOC, free independent u,v,Kx,Ky,Kz arrays, constants), "
    "grid nx,ny in 2..10 with dx != dy, halo in {default, 0, whole cells, fractional cells}, even mode counts below/at/above the "
    "padded size or the default, 1..3 ascending levels, a source (delta/sparse/dense/smooth, sign-changing), an on-grid tower cell, "
    "a background value and the precision. In a third of the even-sized grids the tower lies between grid nodes (the forward run is then re-centred on it and read at the domain centre). Two public calls on the same inputs (footprint at the tower; forward dispersion with "
    "meas_pt=(0,0)) must satisfy sum(q0*flx_fp) == flx_fwd[tower] and sum(q0*conc_fp) == conc_fwd[tower] - background at every "
    "level. Non-trivial = source has >= 2 non-zero cells and a non-zero forward value at the tower; distinct = canonical JSON."
)
ASSUMPTIONS = [
    "shooting growth of the Nyquist mode bounded by exp(13.8) by construction of dx,dy (rounding model in pbt/tol.py)",
    "levels ascending (ordering is C10's subject)",
]
TOLERANCES = {"double": "(1e-12 + 4096*eps*G) * max(|q0|_1*max|fp|, max|forward|)", "single": "1e-5 * same scale (calibrated maximum 2.5e-7)"}
BUDGET = {"quick": dict(examples=1500, shards=1), "thorough": dict(examples=12000, shards=16)}


def warmup():
    sut.warm()


@st.composite
def _case(draw):
    case = draw(gen.problem())
    z, prof = gen.build_profiles(case["prof"])
    case["halo"] = draw(gen.halo(case))
    px, py, _ = gen.pad_widths(case, case["halo"]["value"])
    case["modes"] = draw(gen.modes(case, px, py))
    case["levels"] = draw(gen.levels(len(z), 1, 3))
    case["q"] = draw(gen.source(case["ny"], case["nx"]))
    case["tower"] = draw(gen.tower(case))
    case["bg"] = draw(st.sampled_from([0.0, 1.5, -2.0, 400.0]))
    case["precision"] = draw(st.sampled_from(["double", "double", "double", "single"]))
    case["mp_array"] = draw(st.booleans())  # tower coordinates handed over as a NumPy array instead of a tuple
    # height-independent profiles may also be solved with the closed form (analytic=True): the identity is the same
    case["analytic"] = case["prof"]["kind"] == "const" and draw(st.booleans())
    # a tower between grid nodes (even grids only: the forward run is then re-centred on the tower by the solver itself
    # and its value at the domain centre, a node, is the field value at the tower)
    if case["nx"] % 2 == 0 and case["ny"] % 2 == 0 and draw(st.integers(0, 2)) == 0:
        fr = st.one_of(st.sampled_from([0.5, 0.25]), gen.fl(0.05, 0.95))
        case["tower_frac"] = [draw(fr), draw(fr)]
    return case


def strategy(tier):
    return _case()


def check_case(case):
    out = Outcome()
    z, prof = gen.build_profiles(case["prof"])
    q0 = np.asarray(case["q"], float)
    dom = gen.domain_of(case)
    mp = gen.meas_pt_of(case, case["tower"])
    im, jm = case["tower"]
    frac = case.get("tower_frac")
    if frac:
        ddx, ddy = gen.spacing_of(case)
        mp = ((im + frac[0]) * ddx, (jm + frac[1]) * ddy)
    lv = case["levels"]
    hv = case["halo"]["value"]
    single = case["precision"] == "single"
    common = dict(modes=gen.modes_arg(case["modes"]), halo=hv, precision=case["precision"], analytic=bool(case.get("analytic")))
    if case.get("analytic"):
        out.label("analytic")

    whole = gen.halo_is_whole(case, hv)
    out.label(f"halo={case['halo']['kind']}", "halo-whole-cells" if whole else "halo-incommensurate",
              f"prof={case['prof']['kind']}", case["precision"],
              "modes=default" if case["modes"] is None else "modes=explicit")
    if case["prof"]["kind"] == "closure":
        out.label("closure=" + case["prof"]["closure"])

    # (sut.S also verifies that no array argument is modified in place)
    mp_arg = np.array(mp, dtype=float) if case.get("mp_array") else mp
    _, cfp, ffp = sut.S(q0, z, prof, dom, lv, meas_pt=mp_arg, footprint=True, **common)
    # forward run: un-shifted and read at the tower's cell, or (tower between nodes) re-centred on the tower and read at
    # the domain centre
    _, cfw, ffw = sut.S(q0, z, prof, dom, lv, meas_pt=(mp if frac else (0.0, 0.0)), srf_bg_conc=case["bg"], footprint=False, **common)
    if frac:
        out.label("tower-between-nodes")
        im, jm = case["nx"] // 2, case["ny"] // 2
    cfp, ffp, cfw, ffw = (sut.as3d(a) for a in (cfp, ffp, cfw, ffw))
    if ffp.shape != ffw.shape or ffp.shape[1:] != q0.shape:
        out.bad(f"shapes: footprint {ffp.shape}, forward {ffw.shape}, source {q0.shape}")
        out.nontrivial = True
        return out

    kx, ky = tol.max_wavenumbers(case["nx"], case["ny"], *gen.spacing_of(case))
    logG = tol.log_growth(z, prof, kx, ky)
    rel = tol.rel_tol(logG, single)
    from bldfm.utils import point_measurement

    l1 = float(np.abs(q0).sum())
    fs0, cs0 = tol.natural_scales(q0, z, prof, case["bg"])
    nz_cells = int(np.count_nonzero(q0))
    worst = 0.0
    for k in range(len(lv)):
        for name, fp, fw, off in (("flux", ffp[k], ffw[k], 0.0), ("conc", cfp[k], cfw[k], case["bg"])):
            lhs = float(point_measurement(q0, fp))
            lhs2 = float(np.sum(q0 * fp))
            rhs = float(fw[jm, im]) - off
            scale = max(l1 * tol.maxabs(fp), tol.maxabs(fw), abs(off), fs0 if name == "flux" else cs0)
            bound = rel * scale
            err = max(abs(lhs - rhs), abs(lhs2 - rhs))
            worst = max(worst, err / scale if scale > 0 else 0.0)
            if not err <= bound:
                out.bad(
                    f"{name} level {lv[k]}: sum(q0*footprint) = {lhs!r} but forward run at tower cell "
                    f"({im},{jm}) gives {rhs!r} (|diff| {err:.3e} > {bound:.3e}; halo {hv}, dx,dy {gen.spacing_of(case)})"
                )
    out.detail = {"worst_rel": worst, "rel_tol": rel, "logG": logG}
    out.nontrivial = nz_cells >= 2 and tol.maxabs(ffw[:, jm, im]) > 0
    return out
