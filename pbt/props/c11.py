"""C11 - the output keeps the input grid for every parity / halo / mode count, correctly
registered; fewer modes = ideal low-pass; more modes than cells = as many as cells."""

import itertools

import numpy as np
from hypothesis import strategies as st

from .. import gen, oracles, sut, tol
from ..core import Outcome

ID = "C11"
LEVEL = "exploration"
RULE = (
    "Enumerated exhaustively: nx, ny in 2..9 x even mode pairs from {2,4,6,8,12,20}^2 x halo in {0, default, 1.2 x-cells} x "
    "{footprint, dispersion} = 13824 solver configurations on a fixed height-dependent MOST profile with a fixed non-symmetric "
    "source and tower. Hypothesis part: sizes up to 17, any profile, halo kind, modes below/at/above per axis, tower, source, an "
    "upper level; one case in ten hands over a negative halo (allowed outcomes: an error, or fields on exactly the source grid). Oracle: the call either raises or returns fields of exactly the source's shape with X=i*dx, Y=j*dy, whose "
    "level-0 flux equals an independent numpy.fft low-pass of the padded source (dispersion) or of the point-reflected unit cell at "
    "the tower (footprint; also for a tower displaced from its node by (0.37, 0.62) cells, against the low-pass of a delta at that point) over the retained wavenumber set (exact: the sweep starts from the surface flux); with halo=0 the "
    "spectrum of the result equals that of the full-mode result strictly inside the cut-off and vanishes strictly outside; mode "
    "counts above the padded size equal the padded size (one axis above: per-axis clamp or the documented both-axes clamp accepted). "
    "Non-trivial = odd size in some axis or modes below the padded size or fractional halo; distinct = canonical JSON."
)
ASSUMPTIONS = [
    "pad widths int(halo/dx), int(halo/dy) (both neighbours accepted within 1e-9 of a whole number)",
    "an exception is an allowed outcome (the property says 'or raises'); silent misregistration is not",
]
TOLERANCES = {"registration": "1e-12 * max|field| at level 0", "nesting": "(1e-12+4096 eps G) * max|spectrum|", "coordinates": "1e-12 * domain"}
BUDGET = {
    "quick": dict(examples=300, shards=1, enum_procs=8),
    "thorough": dict(examples=6000, shards=16, enum_procs=16),
}
ENUM_EXHAUSTIVE = True

_PROF = {"kind": "closure", "closure": "MOST", "n": 3, "zm": 5.0, "wind": [3.0, 1.5], "z0": 0.1, "mol": -50.0}


def warmup():
    sut.warm()


def _auto_source(ny, nx):
    j, i = np.meshgrid(np.arange(ny), np.arange(nx), indexing="ij")
    return np.sin(1.3 * i + 0.7 * j * j) + 0.5 + 0.1 * i - 0.05 * j


def enumerate_cases(tier):
    cases = []
    M = (2, 4, 6, 8, 12, 20)
    for nx, ny, mx, my, halo, fp in itertools.product(range(2, 10), range(2, 10), M, M, ("zero", "none", "frac"), (False, True)):
        cases.append({
            "nx": nx, "ny": ny, "dx": 10.0, "dy": 7.0, "modes": [mx, my],
            "halo": {"kind": halo, "value": {"zero": 0.0, "none": None, "frac": 12.0}[halo]},
            "footprint": fp, "tower": [1 % nx, ny - 1], "prof": _PROF, "upper": 3, "q": "auto",
        })
    return cases


@st.composite
def _case(draw):
    case = draw(gen.problem(nmin=2, nmax=17, nzmax=8, nclosure=5))
    z, _ = gen.build_profiles(case["prof"])
    awkward = draw(st.integers(0, 7)) == 0
    if awkward:
        # widths n for which n * (1.0 / n) != 1.0, so that fftfreq(n, d=1/n) is not exactly integer-valued (49, 98, 103, 107):
        # an index computed from it with a float modulo and a truncating cast lands one slot off
        case["nx"] = draw(st.sampled_from([49, 98, 103, 107]))
        case["ny"] = draw(st.integers(2, 4))
    case["halo"] = draw(gen.halo(case, kinds=("zero", "zero", "cells")) if awkward else gen.halo(case))
    px, py, _ = gen.pad_widths(case, case["halo"]["value"])
    m = draw(gen.modes(case, px, py))
    case["modes"] = [512, 512] if m is None else list(m)
    if m is not None and draw(st.integers(0, 7)) == 0:
        # an odd count on one axis: the call may refuse it; if it accepts it, the cut-off clause applies as for any count
        ax = draw(st.integers(0, 1))
        case["modes"][ax] = max(1, case["modes"][ax] - 1)
    case["footprint"] = draw(st.booleans())
    if draw(st.integers(0, 9)) == 0:
        # a halo that is not a width at all: the call may refuse it, it may not hand back a clipped field
        dx_, _ = gen.spacing_of(case)
        case["halo"] = {"kind": "negative", "value": -float(draw(st.integers(0, 2)) + draw(gen.fl(0.05, 0.95))) * dx_}
    case["tower"] = draw(gen.tower(case))
    case["upper"] = draw(st.integers(1, len(z) - 1))
    case["q"] = draw(gen.source(case["ny"], case["nx"]))
    return case


def strategy(tier):
    return _case()


def _negative_halo(case, out, q0, z, prof, dom, dx, dy):
    """Either an error, or fields on exactly the source grid - the two outcomes the property allows."""
    nx, ny = case["nx"], case["ny"]
    fpm = case["footprint"]
    im, jm = case["tower"]
    out.label("footprint" if fpm else "dispersion", "halo=negative")
    out.nontrivial = True
    modes = (int(case["modes"][0]), int(case["modes"][1]))
    try:
        grid, conc, flx = sut.solver()(q0, z, prof, dom, [0, case["upper"]], modes=modes, halo=case["halo"]["value"],
                                       meas_pt=(im * dx, jm * dy) if fpm else (0.0, 0.0), footprint=fpm, precision="double")
    except Exception as e:
        out.label("raised:" + type(e).__name__)
        return out
    out.label("negative-halo-accepted")
    for name, a in (("conc", conc), ("flx", flx), ("X", grid[0]), ("Y", grid[1]), ("Z", grid[2])):
        if np.shape(a) != (2, ny, nx):
            out.bad(f"halo {case['halo']['value']} was accepted and {name} came back with shape {np.shape(a)} for a {ny}x{nx} source "
                    f"({'footprint' if fpm else 'dispersion'} mode): a silently cropped field")
    return out


def _nesting(case, out, q0, z, prof, dom, lv, modes, hv, kw, conc, flx, px, py, nx, ny, dx, dy):
    one_axis_above = (modes[0] > nx + 2 * px) != (modes[1] > ny + 2 * py)
    # ---- nesting: fewer modes = ideal low-pass of the full-mode result (halo = 0: whole periodic domain visible)
    if px == 0 and py == 0 and (modes[0] < nx or modes[1] < ny):
        big = (nx + nx % 2, ny + ny % 2)
        try:
            _, cF, fF = sut.solver()(q0, z, prof, dom, lv, modes=big, halo=hv, **kw)
        except Exception:
            return out
        kxm, kym = tol.max_wavenumbers(nx, ny, dx, dy)
        rel = tol.rel_tol(tol.log_growth(z, prof, kxm, kym))
        kx = np.abs(oracles.freq_index(nx))[None, :]
        ky = np.abs(oracles.freq_index(ny))[:, None]
        cands = [oracles.effective_modes(modes, nx, ny, False)]
        if one_axis_above:
            cands.append(oracles.effective_modes(modes, nx, ny, True))
        problems = None
        for eff in cands:
            inside = oracles.strict_band(ny, eff[1])[:, None] & oracles.strict_band(nx, eff[0])[None, :]
            outside = (kx > min(eff[0], nx) / 2.0) | (ky > min(eff[1], ny) / 2.0)
            msgs = []
            for name, a, b in (("conc", conc, cF), ("flux", flx, fF)):
                A = np.fft.fft2(a, axes=(1, 2))
                B = np.fft.fft2(b, axes=(1, 2))
                scale = tol.maxabs(B)
                if not tol.maxabs((A - B) * inside) <= rel * scale:
                    msgs.append(f"{name}: truncation to modes {modes} (effective {eff}) changes components strictly inside the "
                                f"cut-off by {tol.maxabs((A - B) * inside):.3e} (spectrum max {scale:.3e})")
                if not tol.maxabs(A * outside) <= rel * scale:
                    msgs.append(f"{name}: components strictly beyond the cut-off of modes {modes} (effective {eff}) are not "
                                f"removed ({tol.maxabs(A * outside):.3e})")
            if problems is None or len(msgs) < len(problems):
                problems = msgs
        for m in problems:
            out.bad(m)
        out.label("nesting-checked")
    return out


def check_case(case):
    out = Outcome()
    z, prof = gen.build_profiles(case["prof"])
    nx, ny = case["nx"], case["ny"]
    q0 = _auto_source(ny, nx) if case["q"] == "auto" else np.asarray(case["q"], float)
    dom = gen.domain_of(case)
    dx, dy = gen.spacing_of(case)
    hv = case["halo"]["value"]
    if case["halo"]["kind"] == "negative":
        return _negative_halo(case, out, q0, z, prof, dom, dx, dy)
    px, py, h = gen.pad_widths(case, hv)
    nxe, nye = nx + 2 * px, ny + 2 * py
    modes = (int(case["modes"][0]), int(case["modes"][1]))
    fpm = case["footprint"]
    im, jm = case["tower"]
    mp = (im * dx, jm * dy) if fpm else (0.0, 0.0)
    lv = [0, case["upper"]]
    rel_m = "below" if (modes[0] < nxe or modes[1] < nye) else "at/above"
    odd = (nxe % 2 == 1) or (nye % 2 == 1)
    out.label("footprint" if fpm else "dispersion", f"halo={case['halo']['kind']}", f"modes-{rel_m}",
              "odd-padded-size" if odd else "even-padded-size")
    out.nontrivial = bool(odd or rel_m == "below" or case["halo"]["kind"] == "frac")

    kw = dict(meas_pt=mp, footprint=fpm, precision="double")
    try:
        grid, conc, flx = sut.solver()(q0, z, prof, dom, lv, modes=modes, halo=hv, **kw)
    except Exception as e:  # allowed outcome
        out.label("raised:" + type(e).__name__)
        return out
    X, Y, Z = grid
    shape = (2, ny, nx)
    odd_modes = bool(modes[0] % 2 or modes[1] % 2)
    if odd_modes:
        out.label("odd-mode-count-accepted")
    for name, a in (("conc", conc), ("flx", flx), ("X", X), ("Y", Y), ("Z", Z)):
        if np.shape(a) != shape:
            out.bad(f"{name} has shape {np.shape(a)}, the source grid is {shape[1:]} "
                    f"(padded {nxe}x{nye}, modes {modes}, halo {hv}, {'footprint' if fpm else 'dispersion'})")
    if out.fail:
        return out
    if not (tol.maxabs(X[0] - (np.arange(nx) * dx)[None, :]) <= 1e-12 * dom[0]
            and tol.maxabs(Y[0] - (np.arange(ny) * dy)[:, None]) <= 1e-12 * dom[1]):
        out.bad("returned coordinates are not x = i*dx, y = j*dy")

    if odd_modes:
        return _nesting(case, out, q0, z, prof, dom, lv, modes, hv, kw, conc, flx, px, py, nx, ny, dx, dy)
    # ---- level-0 registration against an independent low-pass reference
    def widths(w, d):
        r = h / d
        c = {w}
        if abs(r - round(r)) < 1e-9:
            c.add(int(round(r)))
        return sorted(c)

    one_axis_above = (modes[0] > nxe) != (modes[1] > nye)
    best = None
    # a tower between grid nodes: at the surface its footprint is the low-pass of a delta at that very point
    off = flx_off = None
    if fpm:
        off = ((im + 0.37) * dx, (jm + 0.62) * dy)
        try:
            _, _, flx_off = sut.solver()(q0, z, prof, dom, lv, modes=modes, halo=hv, meas_pt=off, footprint=True, precision="double")
        except Exception as e:
            out.label("raised-off-node:" + type(e).__name__)
    best_off = None
    for cx in widths(px, dx):
        for cy in widths(py, dy):
            for per_axis in ((False, True) if one_axis_above else (False,)):
                if flx_off is not None and np.shape(flx_off) == shape:
                    ne_x, ne_y = nx + 2 * cx, ny + 2 * cy
                    ex, ey = oracles.effective_modes(modes, ne_x, ne_y, per_axis)
                    keep = oracles.retained(ne_y, ey)[:, None] & oracles.retained(ne_x, ex)[None, :]
                    KX, KY = np.meshgrid(2 * np.pi * np.fft.fftfreq(ne_x, d=dx), 2 * np.pi * np.fft.fftfreq(ne_y, d=dy))
                    r0 = np.fft.ifft2(keep * np.exp(-1j * (KX * (off[0] + cx * dx) + KY * (off[1] + cy * dy)))).real
                    r0 = r0[cy : cy + ny, cx : cx + nx]
                    e = tol.maxabs(r0 - flx_off[0]) / max(tol.maxabs(r0), 1e-300)
                    best_off = e if best_off is None else min(best_off, e)
                _, ref = oracles.closed_form(q0, z, (1.0, 0.5, 1.0, 1.0, 1.0), dom, [0], modes, mp, 0.0, fpm, cx, cy,
                                             tower_cell=(im, jm), per_axis_clamp=per_axis)
                e = tol.maxabs(ref[0] - flx[0]) / max(tol.maxabs(ref[0]), 1.0 if fpm else tol.maxabs(q0), 1e-300)
                best = e if best is None else min(best, e)
    if not best <= 1e-11:
        out.bad(f"level-0 flux is not the low-pass of the {'unit cell at the tower' if fpm else 'source'} on the source grid: "
                f"relative difference {best:.3e} (size {nx}x{ny}, padded {nxe}x{nye}, modes {modes}, halo {hv})")
    out.detail["registration_err"] = best
    if flx_off is not None and np.shape(flx_off) != shape:
        out.bad(f"footprint for a tower between nodes has shape {np.shape(flx_off)}, the source grid is {shape[1:]}")
    elif best_off is not None:
        out.label("off-node-tower-registered")
        if not best_off <= 1e-11:
            out.bad(f"footprint for a tower between grid nodes ({off}) is not registered at that point: its surface level differs "
                    f"from the low-pass of a delta there by {best_off:.3e} (size {nx}x{ny}, padded {nxe}x{nye}, modes {modes}, halo {hv})")

    # ---- clamp: more modes than the padded grid holds == exactly as many as it holds
    if modes[0] >= nxe and modes[1] >= nye:
        even = (nxe + nxe % 2, nye + nye % 2)
        if even != modes:
            _, c2, f2 = sut.solver()(q0, z, prof, dom, lv, modes=even, halo=hv, **kw)
            if not (np.array_equal(c2, conc) and np.array_equal(f2, flx)):
                e = max(tol.maxabs(c2 - conc), tol.maxabs(f2 - flx))
                if not e <= 1e-12 * max(tol.maxabs(conc), tol.maxabs(flx)):
                    out.bad(f"modes {modes} (> padded {nxe}x{nye}) differ from modes {even} by {e:.3e}")

    return _nesting(case, out, q0, z, prof, dom, lv, modes, hv, kw, conc, flx, px, py, nx, ny, dx, dy)
