"""C20 - source-area rescaling (get_source_area) and percentile contours mean what they say."""

import numpy as np
from hypothesis import strategies as st

from .. import gen
from ..core import Outcome

ID = "C20"
LEVEL = "exploration"
RULE = (
    "Hypothesis draws a non-negative field f on shapes 1..8 x 2..8 from small dyadic value sets (sums are exact in floating point, so "
    "brute-force oracles need no tolerance) with many ties and zeros, or (one case in four) arbitrary float values with a 1e-12 tolerance; a base field g that is one of the five built-in base functions "
    "evaluated on a generated grid/tower/wind, f itself, or a random dyadic field with ties; a strictly increasing transform and a "
    "permutation of the cells; fractions p in {k/16} or arbitrary floats in (0,1]; power-of-two cell sizes; 2-D or 3-D input with 1-D "
    "or 2-D coordinate arrays; C-ordered, Fortran-ordered or transposed-view memory layouts of f and g. Oracles: for every cell lo = sum f[g > g_c] <= rescaled_c <= hi = sum f[g >= g_c] - f_c (so exact for "
    "untied cells), also after the monotone transform of g and after the common permutation; rescaled does not increase with g; "
    "percentile contour: count = fewest highest cells whose sum reaches p*total, level = count-th largest value, area = count*dx*dy, "
    "monotone in p, f -> c f scales the level and keeps the area, 3-D input at level l == 2-D call on that slice. "
    "Non-trivial = at least 3 distinct positive values in f and a g with at least 3 distinct values; distinct = canonical JSON."
)
ASSUMPTIONS = ["g is float-valued (every documented base function is)", "f >= 0 as the property states"]
TOLERANCES = {"rescaling": "exact (dyadic values)", "percentile count": "exact for p = k/16; for arbitrary p both neighbours of a boundary within 1e-12 relative are accepted"}
BUDGET = {"quick": dict(examples=4000, shards=1), "thorough": dict(examples=40000, shards=16)}

_DY = [0.0, 0.0, 0.125, 0.25, 0.25, 0.5, 0.75, 1.0, 1.5, 2.0, 3.0]


@st.composite
def _case(draw):
    ny, nx = draw(st.integers(1, 8)), draw(st.integers(2, 8))
    n = ny * nx
    floats = draw(st.integers(0, 3)) == 0  # arbitrary (non-dyadic) values: sums are no longer exact, oracles use a tolerance
    if floats:
        f = draw(st.lists(st.one_of(st.just(0.0), gen.fl(0.0, 3.0), st.sampled_from([0.1, 0.2, 0.3, 0.7])), min_size=n, max_size=n))
    else:
        f = draw(st.lists(st.sampled_from(_DY), min_size=n, max_size=n))
    if not any(f):
        f[draw(st.integers(0, n - 1))] = 1.0
    gk = draw(st.sampled_from(["contribution", "circular", "upwind", "crosswind", "sector", "random", "random", "close"]))
    case = {"ny": ny, "nx": nx, "f": f, "gkind": gk, "floats": floats,
            "dx": draw(st.sampled_from([0.5, 1.0, 2.0, 8.0])), "dy": draw(st.sampled_from([0.25, 1.0, 4.0])),
            "tower": [draw(st.integers(0, nx - 1)), draw(st.integers(0, ny - 1))],
            "wind": [draw(st.sampled_from([1.0, -2.0, 0.5, 3.0, 0.0])), draw(st.sampled_from([1.0, -1.0, 0.25, -3.0]))],
            "grand": draw(st.lists(st.sampled_from([-2.0, -0.5, 0.0, 0.25, 0.25, 1.0, 4.0, 7.5]), min_size=n, max_size=n)),
            "transform": draw(st.sampled_from(["affine", "cube", "exp", "rank"])),
            "perm_seed": draw(st.lists(st.integers(0, 10**6), min_size=n, max_size=n)),
            "p": draw(st.one_of(st.integers(1, 16).map(lambda k: k / 16.0), gen.fl(0.001, 1.0))),
            "p2": draw(st.integers(1, 16).map(lambda k: k / 16.0)),
            "scale": draw(st.sampled_from([0.25, 2.0, 1024.0, 2.0**-30, 2.0**-40, 2.0**30])),  # footprints in other units
            "coords": draw(st.sampled_from(["1d", "2d"])),
            "layout": draw(st.sampled_from(["C", "C", "F", "view"])),
            "stack": draw(st.integers(1, 3)), "level": 0,
            # the field as a single-precision run returns it, next to a double-precision base function
            "f32": draw(st.integers(0, 3)) == 0,
            # a north-up raster: the y axis (or the x axis) stored descending, rows / columns of the field stored accordingly
            "descending": draw(st.sampled_from(["none", "none", "y", "x", "xy"]))}
    case["level"] = draw(st.integers(0, case["stack"] - 1))
    case["unstacked"] = draw(st.integers(0, 2)) == 0
    case["neg_level"] = draw(st.integers(0, 3)) == 0  # the same slice addressed from the top (level -1 = the uppermost one)
    return case


def strategy(tier):
    return _case()


def _g(case, f, X, Y):
    import bldfm

    mp = (case["tower"][0] * case["dx"], case["tower"][1] * case["dy"])
    w = tuple(case["wind"])
    k = case["gkind"]
    if k == "contribution":
        return bldfm.source_area_contribution(f)
    if k == "circular":
        return bldfm.source_area_circular(X, Y, mp)
    if k == "upwind":
        return bldfm.source_area_upwind(X, Y, mp, w)
    if k == "crosswind":
        return bldfm.source_area_crosswind(X, Y, mp, w)
    if k == "sector":
        return bldfm.source_area_sector(X, Y, mp, w)
    if k == "close":  # distinct in double precision, indistinguishable in single precision
        return 1.0 + 1e-10 * np.asarray(case["grand"], float).reshape(f.shape)
    return np.asarray(case["grand"], float).reshape(f.shape)


def _bounds(f, g):
    ff, gf = np.asarray(f, float).ravel(), g.ravel()
    lo = np.array([ff[gf > gc].sum() for gc in gf])
    hi = np.array([ff[gf >= gc].sum() for gc in gf]) - ff
    return lo.reshape(f.shape), hi.reshape(f.shape)


def check_case(case):
    import bldfm
    from bldfm.plotting import extract_percentile_contour

    out = Outcome()
    ny, nx = case["ny"], case["nx"]
    f = np.asarray(case["f"], float).reshape(ny, nx)
    x = np.arange(nx) * case["dx"]
    y = np.arange(ny) * case["dy"]
    X, Y = np.meshgrid(x, y)
    g = np.asarray(_g(case, f, X, Y), float)
    lay = case.get("layout", "C")
    if lay == "F":  # column-major arrays, e.g. from np.meshgrid(..., indexing="ij").T or Fortran-ordered I/O
        f, g = np.asfortranarray(f), np.asfortranarray(g)
    elif lay == "view":  # transposed views of C arrays
        f, g = np.ascontiguousarray(f.T).T, np.ascontiguousarray(g.T).T
    f32 = bool(case.get("f32"))
    if f32:
        f = f.astype(np.float32)  # the values the oracle sums are the single-precision ones
        out.label("f-float32")
    total = f.astype(float).sum()
    out.label("g=" + case["gkind"], "ties-in-g" if len(np.unique(g)) < g.size else "g-untied",
              "zeros-in-f" if (f == 0).any() else "f-positive", "float-values" if case.get("floats") else "dyadic-values", f"coords={case['coords']}", f"stack={case['stack']}", "layout=" + lay)

    lo, hi = _bounds(f, g)

    def within(name, r, lo_, hi_):
        if r.shape != lo_.shape:
            out.bad(f"{name}: result shape {r.shape}, expected {lo_.shape}")
            return
        slack = (1e-5 if f32 else 1e-12) * float(total) if case.get("floats") else 0.0
        badc = np.argwhere((r < lo_ - slack) | (r > hi_ + slack))
        if len(badc):
            j, i = badc[0]
            out.bad(f"{name}: rescaled value {r[j, i]!r} at cell {(int(j), int(i))} outside [sum f over larger g, ... incl. ties] = "
                    f"[{lo_[j, i]!r}, {hi_[j, i]!r}] (g there {g[j, i]!r}, f there {f[j, i]!r})")

    f_keep, g_keep = f.copy(), g.copy()
    r = bldfm.get_source_area(f, g)
    if not (np.array_equal(f, f_keep) and np.array_equal(g, g_keep)):
        out.bad("get_source_area modified its arguments")
        f, g = f_keep.copy(), g_keep.copy()
    if r is f or r is g:
        out.bad("get_source_area returned one of its arguments")
    within("get_source_area", r, lo, hi)
    # same f, another base field, same process: judged by its own brute-force bounds
    g_alt = -np.abs(g) + 0.25 * f
    lo_a, hi_a = _bounds(f, g_alt)
    within("get_source_area with a second base field on the same f", bldfm.get_source_area(f, g_alt), lo_a, hi_a)
    if r.shape == f.shape:
        if (r < 0).any() or (r > total - f + ((1e-5 if f32 else 1e-12) * float(total) if case.get("floats") else 0.0)).any():
            out.bad("rescaled field leaves [0, total - f_cell]")
        gf, rf = g.ravel(), r.ravel()
        o = np.argsort(gf, kind="stable")
        gs, rs = gf[o], rf[o]
        # strictly larger g  =>  not larger rescaled value
        for a in range(len(gs) - 1):
            later = rs[a + 1:][gs[a + 1:] > gs[a]]
            if later.size and later.max() > rs[a]:
                out.bad(f"rescaled field increases with g: g={gs[a]!r} has {rs[a]!r} but a cell with larger g has {later.max()!r}")
                break

    # strictly increasing transformation of g
    t = case["transform"]
    if t == "affine":
        g2 = 3.0 * g + 7.0
    elif t == "cube":
        g2 = np.cbrt(g) if False else g**3
    elif t == "exp":
        g2 = np.exp(np.clip(g, -50, 50) / max(1.0, np.abs(g).max()))
    else:
        g2 = np.searchsorted(np.unique(g), g).astype(float)
    # a transform that merges distinct values in floating point is not strictly increasing: fall back to ranks
    if len(np.unique(g2)) != len(np.unique(g)) or np.any(np.argsort(np.argsort(g2.ravel(), kind="stable"), kind="stable")
                                                          != np.argsort(np.argsort(g.ravel(), kind="stable"), kind="stable")):
        g2 = np.searchsorted(np.unique(g), g).astype(float)
    within(f"after the increasing transform '{t}' of g", bldfm.get_source_area(f, g2), lo, hi)

    # common permutation of the cells
    perm = np.argsort(np.asarray(case["perm_seed"]), kind="stable")
    fp = f.ravel()[perm].reshape(f.shape)
    gp = g.ravel()[perm].reshape(f.shape)
    rp = bldfm.get_source_area(fp, gp)
    within("after a common permutation of cells", rp, lo.ravel()[perm].reshape(f.shape), hi.ravel()[perm].reshape(f.shape))

    # ---- percentile contour (on the double-precision field: its oracle counts cells with 1e-12 slack)
    if f32:
        f = f.astype(float)
        total = f.sum()
    desc = case.get("descending", "none")
    if desc != "none":
        # the same field on axes stored the other way round: same cells, same cell size, same answer
        if "y" in desc:
            y, Y, f = y[::-1].copy(), Y[::-1].copy(), np.ascontiguousarray(f[::-1])
        if "x" in desc:
            x, X, f = x[::-1].copy(), X[:, ::-1].copy(), np.ascontiguousarray(f[:, ::-1])
        out.label("descending-axis=" + desc)
    st_ = case["stack"]
    lvl = case["level"]
    if st_ == 1:
        F = f
        grid = (X, Y, np.zeros_like(X)) if case["coords"] == "2d" else (x, y, np.zeros(1))
    else:
        F = np.stack([f * (1.0 if k == lvl else 0.5) + (0.0 if k == lvl else 0.125) for k in range(st_)])
        Z3, Y3, X3 = np.meshgrid(np.arange(st_, dtype=float), y, x, indexing="ij")
        grid = (X3, Y3, Z3)
        if case.get("unstacked"):
            # horizontal coordinates given once for all levels (2-D meshes or 1-D vectors) next to the 3-D field
            grid = (X, Y, np.arange(st_, dtype=float)) if case["coords"] == "2d" else (x, y, np.arange(st_, dtype=float))
            out.label("3-D-field-with-unstacked-coordinates", "nz==ny" if st_ == ny else "nz==nx" if st_ == nx else "nz-distinct")
    A = case["dx"] * case["dy"]
    vals = np.sort(f.ravel())[::-1]
    cs = np.cumsum(vals)

    def oracle_counts(p):
        tgt = p * total
        c_lo = int(np.searchsorted(cs, tgt * (1 - 1e-12), side="left")) + 1
        c_hi = int(np.searchsorted(cs, tgt * (1 + 1e-12), side="left")) + 1
        exact = float(p * 16).is_integer() and not case.get("floats")
        if exact:
            c = int(np.searchsorted(cs, tgt, side="left")) + 1
            return {c}
        return set(range(min(c_lo, c_hi), min(max(c_lo, c_hi), len(vals)) + 1))

    res = {}
    # (p = 1 on arbitrary values: the whole field is needed, however the total happens to have been summed)
    for p in (case["p"], case["p2"]) + ((1.0,) if case.get("floats") else ()):
        if nx < 2 or (ny < 2):
            continue
        try:
            if lvl == 0 and not case.get("neg_level") and case["perm_seed"][0] % 2 == 0:
                level, area = extract_percentile_contour(F, grid, pct=p)  # level left to its documented default, the surface slice
            else:
                level, area = extract_percentile_contour(F, grid, pct=p, level=(lvl - st_ if case.get("neg_level") and st_ > 1 else lvl))
        except Exception as e:
            out.bad(f"extract_percentile_contour raised {type(e).__name__}: {e}")
            continue
        res[p] = (level, area)
        counts = oracle_counts(p)
        ok = any(area == c * A and level == vals[c - 1] for c in counts if 1 <= c <= len(vals))
        if not ok:
            c = min(counts)
            out.bad(f"percentile p={p}: got level {level!r}, area {area!r}; the fewest highest cells reaching p*total are {c} "
                    f"(level {vals[min(c, len(vals)) - 1]!r}, area {c * A!r})")
        if st_ > 1:
            l2, a2 = extract_percentile_contour(f, (X, Y, np.zeros_like(X)), pct=p)
            if (l2, a2) != (level, area):
                out.bad(f"3-D input at level {lvl} gives {(level, area)}, the 2-D call on that slice {(l2, a2)}")
        ls, as_ = extract_percentile_contour(F * case["scale"], grid, pct=p, level=lvl)
        if not (ls == level * case["scale"] and (as_ == area or case.get("floats"))):
            out.bad(f"scaling f by {case['scale']}: level {level!r} -> {ls!r}, area {area!r} -> {as_!r}")
        if st_ > 1:
            # every level of the SAME 3-D array object, one after the other: each answer is that slice's answer
            for k in range(st_):
                lk, ak = extract_percentile_contour(F, grid, pct=p, level=k)
                l2k, a2k = extract_percentile_contour(F[k].copy(), (X, Y, np.zeros_like(X)), pct=p)
                if (lk, ak) != (l2k, a2k):
                    out.bad(f"3-D input queried at level {k} after other levels gives {(lk, ak)}, the 2-D call on that slice {(l2k, a2k)}")
        # the same array object scaled in place between two calls
        G = np.array(F, copy=True)
        l_a, a_a = extract_percentile_contour(G, grid, pct=p, level=lvl)
        G *= case["scale"]
        l_b, a_b = extract_percentile_contour(G, grid, pct=p, level=lvl)
        if not (l_b == l_a * case["scale"] and a_b == a_a) and not (case.get("floats") and l_b in (vals * case["scale"])):
            out.bad(f"array scaled in place by {case['scale']} between two calls: level {l_a!r} -> {l_b!r}, area {a_a!r} -> {a_b!r}")
    if len(res) == 2:
        (pa, (la, aa)), (pb, (lb, ab)) = sorted(res.items())
        if pa < pb and (aa > ab or la < lb):
            out.bad(f"not monotone in p: p={pa} gives level {la!r}, area {aa!r}; p={pb} gives level {lb!r}, area {ab!r}")

    out.nontrivial = len(np.unique(f[f > 0])) >= 3 and len(np.unique(g)) >= 3
    return out
