"""C16 - met time series: one step per list entry, scalars broadcast, mismatches rejected.

Exhaustive enumeration of the list/scalar pattern space (reference model below)
plus a Hypothesis search over values, value types and timestamps.
"""

import itertools

from hypothesis import strategies as st

from ..core import Outcome

ID = "C16"
LEVEL = "exploration"
FIELDS = ("ustar", "mol", "wind_speed", "wind_dir")
RULE = (
    "Enumerated: every combination of ustar in {absent, scalar, list of 1..4}, z0 in {absent, present}, "
    "mol/wind_speed/wind_dir in {scalar, list of 1..4}, timestamps in {absent, list of 0..5} (10500 configurations, all of them, "
    "entries made pairwise distinguishable), each built through MetConfig+BLDFMConfig and through parse_config_dict and compared "
    "with a ten-line reference model (n = common list length or 1; step i = i-th entries / broadcast scalars / i-th timestamp or i; "
    "invalid combinations must raise at construction); every valid pattern is also driven through run_bldfm_timeseries on a tiny "
    "solver configuration (number and order of results). Hypothesis part: random patterns with random float/int values, string or "
    "integer timestamps. Non-trivial = some field is a list of >= 2 entries, or the combination is invalid (must be rejected); "
    "distinct = distinct canonical JSON."
)
ASSUMPTIONS = [
    "series are Python lists (the dataclass documents Union[float, List[float]]); tuples/arrays are not generated",
    "list lengths 1..4, timestamps 0..5: larger lengths exercise no additional code path",
    "the CLI loop (cmd_run) iterates the same n_timesteps and returns nothing observable; it is not driven",
]
TOLERANCES = {"comparison": "exact equality"}
BUDGET = {
    "quick": dict(examples=400, shards=1, enum_procs=1),
    "thorough": dict(examples=2500, shards=16, enum_procs=16),
}
ENUM_EXHAUSTIVE = True

_BASE = {"ustar": 0.30, "mol": -80.0, "wind_speed": 3.0, "wind_dir": 200.0}
_STEP = {"ustar": 0.05, "mol": -40.0, "wind_speed": 0.5, "wind_dir": 31.0}


def _values(field, state):
    """state 0 = scalar, k>0 = list of k distinguishable entries."""
    if state == 0:
        return _BASE[field] + 7 * _STEP[field]
    return [_BASE[field] + i * _STEP[field] for i in range(state)]


def enumerate_cases(tier):
    cases = []
    for us, z0, mo, ws, wd, ts in itertools.product(
        range(-1, 5), (False, True), range(5), range(5), range(5), range(-1, 6)
    ):
        case = {
            "ustar": None if us < 0 else _values("ustar", us),
            "z0": 0.07 if z0 else None,
            "mol": _values("mol", mo),
            "wind_speed": _values("wind_speed", ws),
            "wind_dir": _values("wind_dir", wd),
            # labels deliberately NOT in ascending order: step i must keep the i-th label whatever it says
            "timestamps": None if ts < 0 else [f"2024-01-01T{(7 * h + 13) % 24:02d}:00" for h in range(ts)],
            "drive": True,
            "origin": bool((us + mo + ws + wd + ts) % 2),  # with / without a geographic reference origin
        }
        cases.append(case)
    # long series (a week of half-hourly data): lengths beyond the small integers an interpreter may share as objects
    for n, nts in ((256, 256), (257, 257), (300, 300), (257, 256), (300, 301)):
        cases.append({"ustar": [0.2 + 0.001 * i for i in range(n)], "z0": None, "mol": -80.0, "wind_speed": [3.0 + 0.01 * i for i in range(n)],
                      "wind_dir": 200.0, "timestamps": [f"t{i:04d}" for i in range(nts)], "drive": False, "origin": False})
    return cases


@st.composite
def _case(draw):
    n = draw(st.integers(1, 4))
    consistent = draw(st.booleans())

    def field(lo, hi, allow_none=False):
        kind = draw(st.sampled_from(["scalar", "list"] + (["none"] if allow_none else [])))
        num = st.one_of(
            st.floats(lo, hi, allow_nan=False, allow_infinity=False),
            st.integers(int(lo) + 1, max(int(lo) + 1, int(hi))),
        )
        if kind == "none":
            return None
        if kind == "scalar":
            return draw(num)
        k = n if consistent else draw(st.integers(1, 4))
        return draw(st.lists(num, min_size=k, max_size=k))

    case = {
        "ustar": field(0.2, 0.8, allow_none=True),
        "z0": draw(st.one_of(st.none(), st.floats(0.01, 0.3))),
        "mol": field(20.0, 500.0),
        "wind_speed": field(2.0, 8.0),
        "wind_dir": field(0.0, 359.0),
    }
    ts_kind = draw(st.sampled_from(["none", "right", "any"]))
    if ts_kind == "none":
        case["timestamps"] = None
    else:
        k = n if ts_kind == "right" else draw(st.integers(0, 5))
        if ts_kind == "right":
            lens = {len(v) for v in case.values() if isinstance(v, list)}
            k = lens.pop() if len(lens) == 1 else (1 if not lens else k)
        case["timestamps"] = draw(
            st.one_of(
                st.lists(st.text("abc-:0123", min_size=1, max_size=6), min_size=k, max_size=k),
                st.lists(st.integers(0, 10**6), min_size=k, max_size=k),
            )
        )
    case["drive"] = False
    case["origin"] = draw(st.booleans())
    # scalar fields as they come out of a computation (wind_speed = np.hypot(u, v), a value read from an array ...)
    case["scalar_type"] = draw(st.sampled_from(["python", "python", "np.float64", "np.float32", "np.int64", "0-d array"]))
    # the timestamps as a list, a tuple or a NumPy array of labels (a pandas index behaves like the last)
    case["ts_container"] = draw(st.sampled_from(["list", "list", "tuple", "ndarray"]))
    return case


def strategy(tier):
    return _case()


# ------------------------------------------------------------------ reference model


def model(case):
    """(valid, n, steps) by the property text alone."""
    lens = {f: len(case[f]) for f in FIELDS if isinstance(case[f], list)}
    has_forcing = case["ustar"] is not None or case["z0"] is not None
    common = len(set(lens.values())) <= 1
    n = next(iter(lens.values())) if lens and common else 1
    ts = case["timestamps"]
    valid = has_forcing and common and (ts is None or len(ts) == n)
    steps = []
    if valid:
        for i in range(n):
            step = {f: (case[f][i] if isinstance(case[f], list) else case[f]) for f in FIELDS}
            step["timestamp"] = ts[i] if ts is not None else i
            steps.append(step)
    return valid, n, steps


_DOMAIN = {"nx": 4, "ny": 4, "xmax": 40.0, "ymax": 40.0, "nz": 2, "modes": [4, 4], "halo": 0.0}
_TOWERS = [{"name": "T", "lat": 0.0, "lon": 0.0, "z_m": 4.0}]


def _met_dict(case):
    d = {}
    for k in FIELDS + ("z0", "timestamps"):
        if case[k] is not None:
            d[k] = case[k]
    # fields the parser would default must be given explicitly so that both
    # construction routes see the same input
    return d


def _build_direct(case):
    from bldfm.config_parser import BLDFMConfig, DomainConfig, MetConfig, TowerConfig

    met = MetConfig(
        ustar=case["ustar"],
        mol=case["mol"],
        wind_speed=case["wind_speed"],
        wind_dir=case["wind_dir"],
        z0=case["z0"],
        timestamps=case["timestamps"],
    )
    dom = DomainConfig(nx=4, ny=4, xmax=40.0, ymax=40.0, nz=2, modes=(4, 4), halo=0.0,
                       **({"ref_lat": 0.0, "ref_lon": 0.0} if case.get("origin") else {}))
    return BLDFMConfig(domain=dom, towers=[TowerConfig(**_TOWERS[0])], met=met)


def _build_parsed(case):
    from bldfm.config_parser import parse_config_dict

    dom = dict(_DOMAIN)
    if case.get("origin"):
        dom.update(ref_lat=0.0, ref_lon=0.0)
    return parse_config_dict(
        {"domain": dom, "towers": [dict(t) for t in _TOWERS], "met": _met_dict(case),
         "solver": {"footprint": True, "precision": "double"}}
    )


def _typed(case):
    """The same forcing with its scalar fields in the drawn NumPy representation (lists stay lists of Python numbers)."""
    t = case.get("scalar_type", "python")
    import numpy as np

    tc = case.get("ts_container", "list")
    if tc != "list" and case.get("timestamps") is not None:
        case = dict(case, timestamps=tuple(case["timestamps"]) if tc == "tuple" else np.array(case["timestamps"]))
    if t == "python":
        return case

    conv = {"np.float64": np.float64, "np.float32": np.float32, "np.int64": lambda v: np.int64(int(v)) if abs(v) >= 1 else np.float64(v),
            "0-d array": lambda v: np.asarray(float(v))}[t]
    c = dict(case)
    for f in FIELDS + ("z0",):
        if c[f] is not None and not isinstance(c[f], list):
            c[f] = conv(c[f])
    return c


def check_case(case):
    out = Outcome()
    case = _typed(case)
    if case.get("scalar_type", "python") != "python":
        out.label("numpy-scalar-fields")
    valid, n, steps = model(case)
    nlists = sum(isinstance(case[f], list) for f in FIELDS)
    maxlen = max([len(case[f]) for f in FIELDS if isinstance(case[f], list)] or [0])
    out.label("valid" if valid else "invalid", f"lists={nlists}")
    if valid:
        only = [f for f in FIELDS if isinstance(case[f], list)]
        if only and "ustar" not in only and "wind_speed" not in only:
            out.label("series-only-in-mol/wind_dir")
        if not only and case["timestamps"] is not None:
            out.label("all-scalar-with-timestamps")
    else:
        if case["ustar"] is None and case["z0"] is None:
            out.label("invalid:no-forcing")
        if case["timestamps"] is not None:
            out.label("invalid-or-ts-present")
    out.nontrivial = (not valid) or maxlen >= 2

    for route, build in (("direct", _build_direct), ("parse_config_dict", _build_parsed)):
        try:
            cfg = build(case)
        except Exception as e:  # rejected at construction
            if valid:
                out.bad(f"{route}: valid forcing rejected: {type(e).__name__}: {e}")
            continue
        if not valid:
            out.bad(
                f"{route}: invalid forcing accepted (lists "
                f"{ {f: len(case[f]) for f in FIELDS if isinstance(case[f], list)} }, "
                f"timestamps {None if case['timestamps'] is None else len(case['timestamps'])}, "
                f"ustar {'set' if case['ustar'] is not None else 'None'}, z0 {case['z0']})"
            )
            continue
        met = cfg.met
        try:
            nts = met.n_timesteps
        except Exception as e:
            out.bad(f"{route}: n_timesteps raised {type(e).__name__}: {e}")
            continue
        if nts != n:
            out.bad(f"{route}: n_timesteps == {nts}, expected {n}")
        for i, exp in enumerate(steps):
            try:
                got = met.get_step(i)
            except Exception as e:
                out.bad(f"{route}: get_step({i}) raised {type(e).__name__}: {e}")
                continue
            for k, v in exp.items():
                if k not in got or got[k] != v or type(got[k]) is not type(v):
                    out.bad(f"{route}: get_step({i})[{k!r}] == {got.get(k)!r}, expected {v!r}")
            if case["z0"] is not None and got.get("z0") != case["z0"]:
                out.bad(f"{route}: get_step({i})['z0'] == {got.get('z0')!r}, expected {case['z0']!r}")
        if case.get("drive") and route == "parse_config_dict" and not out.fail:
            _drive(cfg, n, steps, out)
    return out


def _drive(cfg, n, steps, out):
    """The driver that consumes the forcing makes one solve per step, in order."""
    from bldfm.interface import run_bldfm_timeseries

    try:
        res = run_bldfm_timeseries(cfg, cfg.towers[0])
    except Exception as e:
        out.bad(f"run_bldfm_timeseries raised {type(e).__name__}: {e}")
        return
    out.label("driven")
    if len(res) != n:
        out.bad(f"run_bldfm_timeseries returned {len(res)} results, expected {n}")
        return
    for i, (r, exp) in enumerate(zip(res, steps)):
        if r["timestamp"] != exp["timestamp"]:
            out.bad(f"timeseries result {i} carries timestamp {r['timestamp']!r}, expected {exp['timestamp']!r}")
        for k in FIELDS:
            if r["params"].get(k) != exp[k]:
                out.bad(f"timeseries result {i} params[{k!r}] == {r['params'].get(k)!r}, expected {exp[k]!r}")
