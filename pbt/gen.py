"""Shared Hypothesis strategies and the deterministic builders that turn a JSON
case into solver arguments.  Strategies draw *descriptors* (plain dicts of
numbers, names and lists); builders are pure functions of the descriptor."""

import math

import numpy as np
from hypothesis import strategies as st

from . import tol

KAP = 0.4


# ---------------------------------------------------------------- similarity functions (independent copies)


def psi_m(x):
    """Businger-Dyer integrated stability correction, sign convention of BLDFM
    (psi > 0 stable, added to the logarithm)."""
    x = float(x)
    if x > 0:
        return 5.0 * x
    xi = (1.0 - 16.0 * x) ** 0.25
    return -2.0 * math.log(0.5 * (1 + xi)) - math.log(0.5 * (1 + xi * xi)) + 2.0 * math.atan(xi) - 0.5 * math.pi


def fl(lo, hi):
    return st.floats(lo, hi, allow_nan=False, allow_infinity=False, allow_subnormal=False)


def logfl(lo, hi):
    return fl(math.log(lo), math.log(hi)).map(lambda t: float(math.exp(t)))


@st.composite
def spread(draw, lo, hi, bins=8, log=False):
    """A float in [lo, hi] drawn bin-first: Hypothesis' float strategy puts a third of its mass next to the
    lower bound; choosing one of `bins` equal (or log-equal) sub-ranges first flattens the distribution
    (measured through the label histograms in the evidence files)."""
    k = draw(st.sampled_from([(3 * i + 1) % bins for i in range(bins)] if bins % 3 else list(range(bins))))
    a, b = (math.log(lo), math.log(hi)) if log else (lo, hi)
    w = (b - a) / bins
    x = draw(fl(a + k * w, a + (k + 1) * w))
    return float(math.exp(x)) if log else float(x)


# ---------------------------------------------------------------- profile descriptors

CLOSURES = ("MOST", "MOSTM", "CONSTANT", "OAAHOC")


@st.composite
def closure_profile(draw, nmin=2, nmax=8, closures=CLOSURES):
    closure = draw(st.sampled_from(closures))
    zm = draw(fl(2.0, 20.0))
    z0 = zm * draw(logfl(0.002, 0.1))
    speed = draw(fl(1.0, 8.0))
    ang = draw(fl(0.0, 2 * math.pi))
    if draw(st.integers(0, 5)) == 0:  # axis-aligned winds now and then
        ang = draw(st.sampled_from([0.0, 0.5 * math.pi, math.pi, 1.5 * math.pi]))
    wind = [speed * math.cos(ang), speed * math.sin(ang)]
    stab = draw(st.sampled_from(["neutral", "stable", "unstable"]))
    mol = {"neutral": 1e9, "stable": 1.0, "unstable": -1.0}[stab]
    if stab != "neutral":
        mol *= zm * draw(logfl(0.5, 100.0))
    n = draw(st.integers(nmin, nmax))
    d = {"kind": "closure", "closure": closure, "n": n, "zm": zm, "wind": wind, "mol": mol}
    if closure == "OAAHOC":
        tke = draw(fl(0.3, 3.0))
        expo = draw(fl(2.0, 5.0))  # z0 = zm*exp(-expo)
        d["tke"] = tke
        d["ustar"] = math.sqrt(0.0856 * 0.845 * speed * math.sqrt(tke) / expo)
    else:
        forcing = draw(st.sampled_from(["z0", "ustar"]))
        if forcing == "z0":
            d["z0"] = z0
        else:
            d["ustar"] = KAP * speed / (math.log(zm / z0) + psi_m(zm / mol))
    return d


@st.composite
def _zgrid(draw, nzmin=3, nzmax=12):
    nz = draw(st.integers(nzmin, nzmax))
    if draw(st.integers(0, 7)) == 0:
        # heights in whole metres, passed as an integer array (JSON keeps ints as ints)
        z = [draw(st.integers(1, 2))]
        for _ in range(nz - 1):
            z.append(z[-1] + draw(st.integers(1, 3)))
        return z
    z0 = draw(logfl(0.01, 1.0))
    H = draw(logfl(1.0, 30.0))
    w = draw(st.lists(fl(0.2, 3.0), min_size=nz - 1, max_size=nz - 1))
    cs = np.cumsum(w)
    z = [z0] + [float(z0 + H * c / cs[-1]) for c in cs]
    return z


@st.composite
def free_profile(draw, nzmin=3, nzmax=12):
    z = draw(_zgrid(nzmin, nzmax))
    nz = len(z)
    ks = draw(logfl(0.1, 3.0))

    # each of the five profiles is, now and then, constant with height while the others vary (a code path chosen from
    # "these profiles are height-independent" must look at all of them)
    mixed = draw(st.integers(0, 3)) == 0

    def arr(lo, hi):
        if mixed and draw(st.integers(0, 1)) == 0:
            return [draw(fl(lo, hi))] * nz
        return draw(st.lists(fl(lo, hi), min_size=nz, max_size=nz))

    p = {
        "kind": "free",
        "z": z,
        "u": arr(-6.0, 6.0),
        "v": arr(-6.0, 6.0),
        "Kx": [ks * a for a in arr(0.1, 4.0)],
        "Ky": [ks * a for a in arr(0.1, 4.0)],
        "Kz": [ks * a for a in arr(0.1, 4.0)],
    }
    # horizontally isotropic diffusivity handed over as ONE array for both Kx and Ky: (u, v, Kh, Kh, Kz)
    if draw(st.integers(0, 7)) == 0:
        p["Ky"] = list(p["Kx"])
        p["alias_kh"] = True
    return p


@st.composite
def const_profile(draw, nzmin=3, nzmax=12):
    z = draw(_zgrid(nzmin, nzmax))
    return {
        "kind": "const",
        "z": z,
        "u": draw(fl(-6.0, 6.0)),
        "v": draw(fl(-6.0, 6.0)),
        "Kx": draw(logfl(0.1, 5.0)),
        "Ky": draw(logfl(0.1, 5.0)),
        "Kz": draw(logfl(0.1, 5.0)),
    }


def any_profile(nmax=8, nzmax=12, kinds=("closure", "free", "const")):
    opts = []
    if "closure" in kinds:
        opts.append(closure_profile(nmax=nmax))
    if "free" in kinds:
        opts.append(free_profile(nzmax=nzmax))
    if "const" in kinds:
        opts.append(const_profile(nzmax=nzmax))
    return st.one_of(*opts)


def build_profiles(p):
    """descriptor -> (z, (u, v, Kx, Ky, Kz)) as float64 arrays."""
    if p["kind"] == "closure":
        from bldfm.pbl_model import vertical_profiles

        kw = dict(n=p["n"], meas_height=p["zm"], wind=tuple(p["wind"]), mol=p["mol"], closure=p["closure"])
        for k in ("z0", "ustar", "tke", "prsc", "domain_height", "stretch"):
            if k in p:
                kw[k] = p[k]
        z, prof = vertical_profiles(**kw)
        z = np.asarray(z, float).ravel()
        prof = tuple(np.asarray(a, float).ravel() for a in prof)
        return z, prof
    z = np.asarray(p["z"])
    if z.dtype.kind != "i":  # integer-typed grids stay integer-typed: the solver must cope with whole-metre heights
        z = z.astype(float)
    if p["kind"] == "free":
        prof = [np.asarray(p[k], float) for k in ("u", "v", "Kx", "Ky", "Kz")]
        if p.get("alias_kh"):
            prof[3] = prof[2]  # the same object
        return z, tuple(prof)
    if p["kind"] == "const":
        return z, tuple(np.full(len(z), float(p[k])) for k in ("u", "v", "Kx", "Ky", "Kz"))
    raise ValueError(p["kind"])


def profile_ok(z, prof):
    u, v, Kx, Ky, Kz = prof
    return (
        np.all(np.isfinite(z))
        and all(np.all(np.isfinite(a)) for a in prof)
        and np.all(np.diff(z) > 0)
        and np.all(Kz > 0)
        and np.all(Kx >= 0)
        and np.all(Ky >= 0)
    )


# ---------------------------------------------------------------- horizontal grid with bounded growth


def bounded_spacing(z, prof, dx, dy, gmax=tol.GMAX_LOG):
    """Scale (dx, dy) up together until the shooting growth of the Nyquist mode
    is <= gmax.  Deterministic; returns (dx, dy, logG)."""
    for _ in range(60):
        g = tol.log_growth(z, prof, math.pi / dx, math.pi / dy)
        if g <= gmax:
            return dx, dy, g
        f = max(1.08, min(4.0, (g / gmax) ** 1.0)) * 1.02
        dx, dy = dx * f, dy * f
    return dx, dy, g


@st.composite
def problem(draw, kinds=("closure", "free", "const"), nmin=2, nmax=10, nzmax=12, nclosure=8, gmax=tol.GMAX_LOG,
            square_cells=0.3):
    """Profiles + horizontal grid: {'prof', 'nx', 'ny', 'dx', 'dy'}."""
    p = draw(any_profile(nmax=nclosure, nzmax=nzmax, kinds=kinds))
    z, prof = build_profiles(p)
    H = float(z[-1] - z[0])
    nx = draw(st.integers(nmin, nmax))
    ny = draw(st.integers(nmin, nmax))
    if draw(st.integers(0, 6)) == 0:
        # now and then a larger size with a large prime factor (17, 19, 23, 29, 31, 34, 37, 38 ...): FFT libraries and
        # "fast length" helpers treat those differently from the small smooth sizes
        nx = draw(st.sampled_from([17, 19, 23, 29, 31, 34, 37, 38, nx]))
        ny = draw(st.sampled_from([ny, 17, 19, 23, ny, 29, 34]))
    dx = H * draw(logfl(0.3, 12.0))
    if draw(fl(0.0, 1.0)) < square_cells:
        dy = dx
    else:
        dy = dx * draw(logfl(0.5, 2.0))
    dx, dy, g = bounded_spacing(z, prof, dx, dy, gmax)
    # short decimal representations keep replay files readable and exact
    dx, dy = float(f"{dx:.6g}"), float(f"{dy:.6g}") if dy != dx else float(f"{dx:.6g}")
    return {"prof": p, "nx": nx, "ny": ny, "dx": dx, "dy": dy}


def domain_of(case):
    return (case["nx"] * case["dx"], case["ny"] * case["dy"])


def spacing_of(case):
    """dx, dy exactly as the solver computes them from the domain."""
    xmx, ymx = domain_of(case)
    return xmx / case["nx"], ymx / case["ny"]


# ---------------------------------------------------------------- halo / modes / levels / source / tower


@st.composite
def halo(draw, case, kinds=("none", "zero", "cells", "frac")):
    """{'kind', 'value'}: value is the float handed to the solver (None = default).
    'cells'  = whole number of x-cells (whole in y too only if dy == dx)
    'frac'   = incommensurate: a fractional number of cells in x (and y),
               at least 0.1 cell away from a whole number in both axes."""
    kind = draw(st.sampled_from(kinds))
    dx, dy = spacing_of(case)
    if kind == "none":
        return {"kind": kind, "value": None}
    if kind == "zero":
        return {"kind": kind, "value": 0.0}
    if kind == "cells":
        k = draw(st.integers(1, 3))
        c = float(k)
    else:
        c = draw(st.integers(0, 2)) + draw(fl(0.12, 0.88))
    value = c * dx
    # keep away from the int() boundary in y unless it is an exact multiple
    r = value / dy
    frac = r - math.floor(r)
    if dy != dx and (frac < 0.1 or frac > 0.9):
        value = (math.floor(r) + 0.5) * dy
        if kind == "cells":
            kind = "frac"
    return {"kind": kind, "value": float(value)}


def pad_widths(case, halo_value):
    """(px, py) as the solver documents them: int(halo/dx), int(halo/dy)."""
    xmx, ymx = domain_of(case)
    dx, dy = spacing_of(case)
    h = max(xmx, ymx) if halo_value is None else halo_value
    return int(h / dx), int(h / dy), h


def halo_is_whole(case, halo_value):
    dx, dy = spacing_of(case)
    xmx, ymx = domain_of(case)
    h = max(xmx, ymx) if halo_value is None else halo_value
    return all(abs(h / d - round(h / d)) < 1e-9 for d in (dx, dy))


@st.composite
def modes(draw, case, px=0, py=0):
    """Even mode counts below / at / above the padded size, or the default."""
    nxe, nye = case["nx"] + 2 * px, case["ny"] + 2 * py
    kind = draw(st.sampled_from(["default", "below", "at", "above", "mixed"]))
    if kind == "default":
        return None

    def one(n):
        even_at = n if n % 2 == 0 else n + 1
        k = kind if kind != "mixed" else draw(st.sampled_from(["below", "at", "above"]))
        if k == "below" and n >= 3:
            return 2 * draw(st.integers(1, (n - 1) // 2))
        if k == "above":
            return even_at + 2 * draw(st.integers(1, 3))
        return even_at

    return [one(nxe), one(nye)]


def modes_arg(m):
    return (512, 512) if m is None else (int(m[0]), int(m[1]))


@st.composite
def levels(draw, nz, min_size=1, max_size=4, ascending=True):
    k = draw(st.integers(min_size, min(max_size, nz)))
    lv = draw(st.lists(st.integers(0, nz - 1), min_size=k, max_size=k, unique=True))
    return sorted(lv) if ascending else lv


@st.composite
def source(draw, ny, nx, kinds=("delta", "sparse", "dense", "smooth", "balanced"), lo=-4.0, hi=4.0):
    kind = draw(st.sampled_from(kinds))
    q = np.zeros((ny, nx))
    if kind == "balanced":
        # exactly zero net flux: all zeros, or an uptake patch balancing an emission patch
        if draw(st.integers(0, 3)) and ny * nx >= 2:
            a = draw(st.sampled_from([1.0, 0.5, 2.0, 3.0]))
            c1 = draw(st.integers(0, ny * nx - 1))
            c2 = (c1 + draw(st.integers(1, ny * nx - 1))) % (ny * nx)
            q.flat[c1] += a
            q.flat[c2] -= a
    elif kind == "delta":
        q[draw(st.integers(0, ny - 1)), draw(st.integers(0, nx - 1))] = draw(fl(0.5, hi))
    elif kind == "sparse":
        for _ in range(draw(st.integers(2, 4))):
            q[draw(st.integers(0, ny - 1)), draw(st.integers(0, nx - 1))] += draw(fl(lo, hi))
    elif kind == "dense":
        vals = draw(st.lists(fl(lo, hi), min_size=ny * nx, max_size=ny * nx))
        q = np.asarray(vals).reshape(ny, nx)
    else:  # smooth: a few Fourier modes
        yy, xx = np.meshgrid(np.arange(ny) / ny, np.arange(nx) / nx, indexing="ij")
        q = q + draw(fl(lo, hi))
        for _ in range(draw(st.integers(1, 3))):
            a, b = draw(st.integers(-2, 2)), draw(st.integers(-2, 2))
            ph = draw(fl(0.0, 6.28))
            q = q + draw(fl(lo, hi)) * np.cos(2 * np.pi * (a * xx + b * yy) + ph)
    # values below 1e-6 are flushed to zero: single-precision storage (complex64) underflows below ~1e-38,
    # an absolute floor that the relative statements of the properties do not speak about
    return [[float(f"{v:.12g}") if abs(v) >= 1e-6 else 0.0 for v in row] for row in q]


@st.composite
def tower(draw, case):
    return [draw(st.integers(0, case["nx"] - 1)), draw(st.integers(0, case["ny"] - 1))]


def meas_pt_of(case, cell):
    dx, dy = spacing_of(case)
    return (cell[0] * dx, cell[1] * dy)
