#!/bin/sh
# Offline setup: make sure hypothesis is importable by /venv/bin/python (the
# interpreter that has BLDFM and its dependencies); install it from the local
# wheelhouse if it is not.  Nothing is fetched from a network.
set -e
export PIP_NO_INDEX=1
if ! /venv/bin/python -c "import hypothesis" 2>/dev/null; then
    /venv/bin/pip install --no-index --find-links /opt/veriftools/wheels hypothesis
fi
/venv/bin/python - <<'PY'
import hypothesis, numpy, scipy, yaml, xarray
print("setup ok: hypothesis", hypothesis.__version__, "numpy", numpy.__version__, "scipy", scipy.__version__)
PY
mkdir -p "$(dirname "$0")/evidence" "$(dirname "$0")/out"
