#!/bin/sh
# tools/run_all.sh [quick|thorough] [seed]   - run every registered check, one after the other; print a summary
cd "$(dirname "$0")/.."
tier=${1:-quick}; seed=${2:-1}; mkdir -p out
ids=$(/venv/bin/python -c "import json;print(' '.join(c['property_id'] for c in json.load(open('MANIFEST.json'))['checks']))")
rc=0
for id in $ids; do
  VERIF_SEED=$seed ./check $id $tier > out/run_$id.log 2>&1; e=$?
  echo "$id exit=$e $(grep "^$id " out/run_$id.log | tail -1)"
  [ $e -ne 0 ] && rc=1 && grep -E "VIOLATION|discrepancy|HARNESS|INCONCL" out/run_$id.log | head -5
done
exit $rc
