#!/venv/bin/python
"""Calibration helper: run a property's generator for N cases at a seed and dump
(case, labels, detail, fail) as JSON lines to stdout.   tools/collect.py C05 2000 7 [tier]"""
import json, os, sys
from pathlib import Path
sys.path.insert(0, str(Path(__file__).resolve().parent.parent))
from pbt import core, env
pid, n, seed = sys.argv[1], int(sys.argv[2]), int(sys.argv[3])
tier = sys.argv[4] if len(sys.argv) > 4 else "quick"
env.setup(); env.import_bldfm()
import hypothesis
from hypothesis import HealthCheck, Phase, given, settings
mod = core.load_prop(pid)
if hasattr(mod, "warmup"): mod.warmup()
outp = sys.stdout
@hypothesis.seed(seed)
@settings(max_examples=n, database=None, deadline=None, suppress_health_check=list(HealthCheck), phases=[Phase.generate])
@given(mod.strategy(tier))
def run(case):
    o = core.eval_case(mod, case)
    outp.write(json.dumps({"labels": o.labels, "detail": o.detail, "fail": o.fail, "nontrivial": o.nontrivial, "case": case if o.fail else None}, default=float) + "\n")
run()
outp.flush()
env.hard_exit(0)
