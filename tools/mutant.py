#!/venv/bin/python
"""Sensitivity protocol: run checks against a deliberately broken scratch copy of /repo.

    tools/mutant.py --patch some.diff  C02 C03 ...        (git-style patch, -p1)
    tools/mutant.py --sub FILE OLD NEW  C02 ...            (exact string substitution in src/bldfm/FILE)
    add --tests to also run the repository's test suite on the copy (does the mutant survive it?)

The copy lives in a fresh temporary directory outside /repo and /verif and is
deleted afterwards; BLDFM_VERIF_REPO points the checks at it.  Exit status 0
iff every listed check exits 1 (mutant killed)."""

import os
import shutil
import subprocess
import sys
import tempfile
from pathlib import Path

VERIF = Path(__file__).resolve().parent.parent


def main(argv):
    args = argv[1:]
    patch = sub = None
    tests = False
    tier = "quick"
    while args and args[0].startswith("--"):
        a = args.pop(0)
        if a == "--patch":
            patch = Path(args.pop(0)).resolve()
        elif a == "--sub":
            sub = (args.pop(0), args.pop(0), args.pop(0))
        elif a == "--tests":
            tests = True
        elif a == "--thorough":
            tier = "thorough"
    ids = args
    tmp = Path(tempfile.mkdtemp(prefix="bldfm-mutant-"))
    try:
        dst = tmp / "repo"
        shutil.copytree("/repo", dst, ignore=shutil.ignore_patterns(".git", "__pycache__", "output", "plots", "runs", "docs", "*.pkl"))
        if patch:
            subprocess.run(["patch", "-p1", "-s", "-i", str(patch)], cwd=dst, check=True)
        if sub:
            f = dst / "src" / "bldfm" / sub[0]
            s = f.read_text()
            if s.count(sub[1]) != 1:
                print(f"substitution target occurs {s.count(sub[1])} times in {f}")
                return 2
            f.write_text(s.replace(sub[1], sub[2]))
        ok = True
        env = dict(os.environ, BLDFM_VERIF_REPO=str(dst))
        if tests:
            r = subprocess.run(
                ["/venv/bin/python", "-m", "pytest", "-q", "-p", "no:cacheprovider", "-x", "-n", "8", "--timeout=900"],
                cwd=dst, env=dict(os.environ, PYTHONPATH=str(dst / "src")), capture_output=True, text=True)
            tail = [l for l in r.stdout.splitlines() if "passed" in l or "failed" in l][-1:]
            print("repo tests on mutant:", tail, "exit", r.returncode)
        for pid in ids:
            r = subprocess.run([str(VERIF / "check"), pid, tier], env=env, capture_output=True, text=True, cwd=VERIF)
            lines = r.stdout.strip().splitlines()
            head = [l for l in lines if l.startswith(pid)][:1]
            disc = [l for l in lines if "discrepancy" in l][:2]
            print(f"{pid}: exit {r.returncode} {'KILLED' if r.returncode == 1 else 'SURVIVED' if r.returncode == 0 else 'ERROR'}", *head)
            for d in disc:
                print("   ", d[:260])
            if r.returncode == 2:
                print(r.stdout[-1500:], r.stderr[-1500:])
            ok &= r.returncode == 1
        return 0 if ok else 1
    finally:
        shutil.rmtree(tmp, ignore_errors=True)


if __name__ == "__main__":
    sys.exit(main(sys.argv))
