#!/venv/bin/python
"""Run every mutant of mutants/list.json against the checks listed for it (quick tier, scratch copies) and write
mutants/RESULTS.md.  A mutant marked "expect": "survive" is a consistent / equivalent variant: the checks must stay green."""
import json, subprocess, sys
from concurrent.futures import ThreadPoolExecutor
from pathlib import Path
V = Path(__file__).resolve().parent.parent
L = json.loads((V / "mutants" / "list.json").read_text())

def one(m):
    cmd = [str(V / "tools" / "mutant.py")]
    cmd += ["--patch", str(V / m["patch"])] if "patch" in m else ["--sub", m["file"], m["old"], m["new"]]
    r = subprocess.run(cmd + m["checks"], capture_output=True, text=True, cwd=V)
    res = {}
    for line in r.stdout.splitlines():
        for pid in m["checks"]:
            if line.startswith(pid + ": exit"):
                res[pid] = "KILLED" if "KILLED" in line else "SURVIVED" if "SURVIVED" in line else "ERROR"
    return m, res, r.stdout[-300:] if not res else ""

with ThreadPoolExecutor(max_workers=int(sys.argv[1]) if len(sys.argv) > 1 else 4) as ex:
    rows = list(ex.map(one, L))
bad = 0
lines = ["# Sensitivity of the checks to hand-written mutants (quick tier, seed 1)", "",
         "| mutant | expectation | result |", "|---|---|---|"]
for m, res, err in rows:
    exp = m.get("expect", "kill")
    ok = all((v == "SURVIVED") if exp == "survive" else (v == "KILLED") for v in res.values()) and res
    primary = m["checks"][0]
    okp = res.get(primary) == ("SURVIVED" if exp == "survive" else "KILLED")
    bad += not okp
    lines.append(f"| {m['name']} | {exp} by {', '.join(m['checks'])} | " + ", ".join(f"{k}={v}" for k, v in res.items()) + (" " + err.replace("\n", " ")[:120] if err else "") + (" **UNEXPECTED**" if not okp else "") + " |")
    print(lines[-1])
(V / "mutants" / "RESULTS.md").write_text("\n".join(lines) + "\n")
sys.exit(1 if bad else 0)
