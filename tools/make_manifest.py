#!/opt/veriftools/pyvenv/bin/python
"""Regenerate MANIFEST.json from the table below and validate it against the
schema.  Only properties whose check module exists are claimed; the rest are
listed under not_applicable with the reason 'check not built yet' until it is."""

import json
import subprocess
import sys
from pathlib import Path

VERIF = Path(__file__).resolve().parent.parent

# id -> (level category, technique, level text, level note, design section)
CHECKS = {
    "C16": (
        "exploration",
        "exhaustive enumeration of the pattern space against a reference model + Hypothesis value search",
        "All 10500 list/scalar/timestamp/forcing patterns are enumerated (complete within lengths 1..4) and compared with a "
        "ten-line reference model through both construction routes and the timeseries driver; Hypothesis adds random values "
        "and types. Exhaustive within the stated bounds, which is the whole quantifier of the property.",
        "Series are Python lists; lengths up to 4; CLI loop not driven.",
    ),
}

NOT_YET = "check not built yet in this revision of /verif (see DESIGN.md section 4 for the planned oracle)"


def main():
    props = [json.loads(l) for l in (VERIF / "properties.jsonl").read_text().splitlines() if l.strip()]
    checks = []
    na = []
    for p in props:
        pid = p["id"]
        if pid in CHECKS and (VERIF / "pbt" / "props" / f"{pid.lower()}.py").exists():
            cat, tech, text, note = CHECKS[pid]
            checks.append(
                {
                    "property_id": pid,
                    "quick_cmd": f"./check {pid} quick",
                    "thorough_cmd": f"./check {pid} thorough",
                    "evidence_file": f"/verif/evidence/{pid}.json",
                    "replay_cmd_template": f"./check {pid} replay {{path}}",
                    "engine": "pbt",
                    "level_claimed": {"category": cat, "text": text, "design_ref": f"DESIGN.md section 4, {pid}"},
                    "level_note": note,
                    "technique": tech,
                }
            )
        else:
            na.append({"property_id": pid, "reason": NOT_YET})
    manifest = {
        "version": 1,
        "setup_cmd": "./setup.sh",
        "hooks": {
            "guard": "none",
            "enable": "no source hooks: every observation is through the public API plus test-side monkey-patching; "
            "checks import /repo/src directly (BLDFM_VERIF_REPO overrides the root for scratch-copy mutants only)",
            "baseline_off_cmd": "cd /repo && /venv/bin/python -m pytest -ra -q -p no:cacheprovider --timeout=900 --continue-on-collection-errors",
            "source_commits": [],
            "add_only": True,
        },
        "engines": [
            {
                "name": "pbt",
                "path": "pbt/",
                "serves_properties": [c["property_id"] for c in checks],
                "kind_free_text": "Hypothesis 6.168 property-based search (plain @given, RuleBasedStateMachine for histories, "
                "exhaustive enumeration of small finite domains) against explicit oracles; JSON replay files",
            }
        ],
        "checks": checks,
        "notes": "VERIF_SEED seeds every generator; exit 2 = harness error/inconclusive, never a violation. "
        "Genuine defects repaired in /repo are listed in KNOWN_FINDINGS.txt as 'fixed:' lines.",
        "not_applicable": na,
    }
    out = VERIF / "MANIFEST.json"
    out.write_text(json.dumps(manifest, indent=1) + "\n")
    import jsonschema

    schema = json.loads(Path("/root/.vp/MANIFEST.schema.json").read_text())
    jsonschema.validate(manifest, schema)
    print(f"MANIFEST.json: {len(checks)} checks, {len(na)} not_applicable; valid")


if __name__ == "__main__":
    main()
