#!/opt/veriftools/pyvenv/bin/python
"""Regenerate MANIFEST.json from the table below and validate it against the
schema.  Only properties whose check module exists are claimed; the rest are
listed under not_applicable with the reason 'check not built yet' until it is."""

import json
import subprocess
import sys
from pathlib import Path

VERIF = Path(__file__).resolve().parent.parent

# id -> (level category, technique, level text, level note, design section)
CHECKS = {
    "C01": (
        "exploration",
        "Hypothesis search over profile families / grids / wavenumbers against a reference model of the continuous BVP (Riccati equation integrated with DOP853, rtol 1e-11), refinement pairs n, 4n",
        "Per-mode transfer functions of the solver are compared with an independent integration of the continuous boundary-value problem; the error bound (<= 6 delta) and monotone decrease are asserted on all admitted modes, the 2.5x rate per quartering on r <= 0.5, delta <= 1 (calibrated on the repaired tree over 1660 asserted cases: min ratio 3.27, max E/delta 1.54).",
        "Asymptotic statement checked at two refinements inside a calibrated regime; growth to the output height <= e^8 so that rounding (~eps*exp(2 growth)) stays negligible; DOP853 reference trusted to 1e-9.",
    ),
    "C14": (
        "exploration",
        "Hypothesis search over (towers x steps, strategy, workers, parent threads, cache switch, delay table) with harness-owned worker completion order, against serially computed single runs",
        "Differential: every driver's output must equal the reference single runs (keys in configuration order, lists in time order, metadata, fields to 1e-12; bit-identity counted) under generated schedules in which workers finish in a drawn order.",
        "Completion order of worker processes is owned via injected delays; fork start method; thread interleavings inside a worker are not owned.",
    ),
    "C12": (
        "exploration",
        "Hypothesis RuleBasedStateMachine over solve / set_threads / reset_fft_manager / truncated-wisdom histories against a model (first result per (spec, threads)) and per-spec fresh-process references",
        "Model-based stateful search: repeats under the same thread setting must be bit-identical, every result must match the same solve made as the only solve of a fresh single-threaded process to 1e-12 (double), single precision within 1e-5 of its double twin; failing histories are saved with everything the process did before them.",
        "Thread interleavings inside numba/OpenMP/FFTW are sampled (thread counts 1..8, repetition), not owned.",
    ),
    "C15": (
        "exploration",
        "Hypothesis RuleBasedStateMachine over solve/reopen/truncate/zero/junk/clear histories against a model (memo of uncached results + entry-file ownership); enumeration of truncation offsets; a real second process",
        "Model-based stateful search: every cached solve must equal the uncached memo exactly, intact entries must hit without a put, damaged files must neither raise nor be returned; the request alphabet enumerates every parameter of the solver signature as a single-argument variant. Thorough enumerates every byte offset of stored entries (fault enumeration of the crash-point quantifier).",
        "Crash points = prefixes of a stored entry (plus stray files); block-reordering torn writes not modelled.",
    ),
    "C08": (
        "exploration",
        "Hypothesis end-to-end search through parse_config_dict + run_bldfm_single with a centroid-bearing oracle; unit relations of the wind decomposition",
        "Wind directions over all octants, stabilities, closures, lat/lon-placed towers, oblong grids; the bearing of the footprint's centre of mass (tower-centred disc, resolved domains only) must equal wind_dir within 12 degrees (calibrated max 6.5; convention errors are >= 45).",
        "Bearing asserted only on resolved domains (>= 70 % of the unit mass inside the returned window, centroid >= 3 cells away); halo never 0.",
    ),
    "C13": (
        "exploration",
        "Hypothesis differential search: run_bldfm_single vs the hand-written pipeline with numbers read from the generated dictionary; YAML round trip",
        "Exact (array_equal) agreement of the high-level run with the documented low-level pipeline for every generated configuration, tower and time index, plus metadata and YAML == dict parsing.",
        "Only the wiring is compared; the low-level functions are the other properties' subject.",
    ),
    "C18": (
        "exploration",
        "Hypothesis round-trip search over generated result sets (all finite doubles, float32 fields, labels, forcings) and real driver output",
        "save -> load must return bit-identical fields under the right (time, tower, level) labels, coordinates, tower metadata, met values and label-based selections.",
        "Results keyed in configuration order; >= 2 cells per axis.",
    ),
    "C09": (
        "exploration",
        "Hypothesis search with constructed physically-consistent parameters against independently written similarity formulas, grid anchors, round trip and scipy.quad",
        "Every generated profile set is compared with the closure formulas written from the documentation, the grid's anchor nodes, the z0<->u* round trip and a quadrature of the flux-gradient function.",
        "No positivity claim for the wind at z0; custom grids only inside the formula's validity condition.",
    ),
    "C19": (
        "exploration",
        "Hypothesis differential search vs the paper's closed form (scipy.special) with typed scalars; metamorphic rot90 / rotation relations; brute-force circular median",
        "Cell-by-cell agreement with an independent implementation of the published equations at independently rotated coordinates, for int/float/NumPy-typed scalars; mass against the incomplete gamma function on resolving grids; estimateZ0 against the log law and a brute-force median.",
        "Physically consistent inputs (U > 0); mass only on plume-resolving grids; float32 scalars compared at 2e-4 of the field maximum.",
    ),
    "C05": (
        "exploration",
        "Hypothesis differential search vs an independent numpy.fft closed-form assembler (part A); generated refinement triples n,2n,4n with an order-of-convergence oracle (part B)",
        "Part A compares analytic mode with an independently written closed form on every generated configuration to 1e-11; part B measures the observed order against the analytic solution inside a calibrated sub-regime (r <= 0.5, growth <= e^10): ratio >= 5.5 per halving (calibration on the repaired tree: min 6.97 over 10186 halvings; pinned tree: 2.4-4.6).",
        "Order asserted only for r <= 0.5, n >= 8, growth <= e^10; asymptotic statement checked at three refinements.",
    ),
    "C17": (
        "exploration",
        "Hypothesis round-trip and reference-model search (spherical destination / haversine / initial bearing)",
        "Round trips to 1e-9 deg / 1e-6 m, orientation, and agreement with independent great-circle formulas to the property's 0.1 % / 0.1 deg over generated reference points and offsets.",
        "Sphere R = 6 371 000 m; |lat| <= 60; offsets <= 5 km; no antimeridian wrap.",
    ),
    "C20": (
        "exploration",
        "Hypothesis search against brute-force O(n^2) oracles on dyadic-valued fields (exact arithmetic), metamorphic relations (monotone transform, permutation, scaling, p-monotonicity)",
        "Every cell's rescaled value is bracketed by brute-force sums (equal for untied cells); percentile contours compared with the minimal-count definition exactly.",
        "Float-valued g; dyadic field values so that sums are exact.",
    ),
    "C02": (
        "exploration",
        "Hypothesis metamorphic search: footprint call vs forward call on the same generated inputs (reciprocity identity)",
        "Two public calls on thousands of structurally different generated inputs (odd sizes, dx != dy, incommensurate and default "
        "halos, truncated modes, all closures, both precisions) must satisfy an exact discrete identity to the rounding model; "
        "shrunk counterexamples become replay files.",
        "Growth of the shooting method bounded by construction; ascending levels.",
    ),
    "C03": (
        "exploration",
        "Hypothesis search against exact invariants (means, unit sum, trapezoidal/exact resistance) and a differential halo==padding relation",
        "Conservation laws are exact algebraic identities of the discrete algorithm, observed on the whole periodic domain with halo=0; "
        "halo equivalence compares two public calls.",
        "Pad widths as documented (int(halo/dx)); closed-form resistance only for families that have one.",
    ),
    "C04": (
        "exploration",
        "Hypothesis search of the linearity law over generated (q1,q2,a,b,c1,c2), numerical and analytic mode; bit-identity of footprints",
        "Linear-combination identity to the rounding model, uniform background offset, and exact independence of footprints from source values.",
        "Growth bounded by construction; ascending levels.",
    ),
    "C06": (
        "exploration",
        "Hypothesis metamorphic search: integer cell shifts of source and tower, point reflection, re-centring as np.roll",
        "Translation equivariance on the periodic domain is exact for whole-cell shifts; each relation compares two public calls.",
        "halo=0; on-grid measurement points only.",
    ),
    "C07": (
        "exploration",
        "Hypothesis metamorphic search: mirrored / transposed / rescaled problems vs mirrored / transposed / rescaled outputs",
        "Each symmetry of the PDE is an exact relation between two public calls; mirrors compared strictly inside the retained band as the property excepts Nyquist components.",
        "Mirrors with halo=0; length similarity only when the halo is the same number of cells in both problems.",
    ),
    "C10": (
        "exploration",
        "Hypothesis differential search: multi-level call vs single-level calls vs full-column call over generated ordered level selections and argument types",
        "Slice k must be the single-level solution of levels[k] under its own height; orders, types, modes, analytic/numerical, precisions generated.",
        "Distinct levels only.",
    ),
    "C11": (
        "exploration",
        "exhaustive enumeration (13824 size/modes/halo/mode configurations) + Hypothesis search against an independent numpy.fft low-pass reference",
        "Every configuration in the stated small range is solved and its level-0 flux compared with an independent registration oracle; spectral nesting and clamp rules checked; raises are allowed, misregistration is not.",
        "Exhaustive only within nx,ny in 2..9 and the listed mode counts/halos; larger sizes sampled.",
    ),
    "C16": (
        "exploration",
        "exhaustive enumeration of the pattern space against a reference model + Hypothesis value search",
        "All 10500 list/scalar/timestamp/forcing patterns are enumerated (complete within lengths 1..4) and compared with a "
        "ten-line reference model through both construction routes and the timeseries driver; Hypothesis adds random values "
        "and types. Exhaustive within the stated bounds, which is the whole quantifier of the property.",
        "Series are Python lists; lengths up to 4; CLI loop not driven.",
    ),
}

NOT_YET = "check not built yet in this revision of /verif (see DESIGN.md section 4 for the planned oracle)"


def main():
    props = [json.loads(l) for l in (VERIF / "properties.jsonl").read_text().splitlines() if l.strip()]
    checks = []
    na = []
    for p in props:
        pid = p["id"]
        if pid in CHECKS and (VERIF / "pbt" / "props" / f"{pid.lower()}.py").exists():
            cat, tech, text, note = CHECKS[pid]
            checks.append(
                {
                    "property_id": pid,
                    "quick_cmd": f"./check {pid} quick",
                    "thorough_cmd": f"./check {pid} thorough",
                    "evidence_file": f"/verif/evidence/{pid}.json",
                    "replay_cmd_template": f"./check {pid} replay {{path}}",
                    "engine": "pbt",
                    "level_claimed": {"category": cat, "text": text, "design_ref": f"DESIGN.md section 4, {pid}"},
                    "level_note": note,
                    "technique": tech,
                }
            )
        else:
            na.append({"property_id": pid, "reason": NOT_YET})
    manifest = {
        "version": 1,
        "setup_cmd": "./setup.sh",
        "hooks": {
            "guard": "none",
            "enable": "no source hooks: every observation is through the public API plus test-side monkey-patching; "
            "checks import /repo/src directly (BLDFM_VERIF_REPO overrides the root for scratch-copy mutants only)",
            "baseline_off_cmd": "cd /repo && /venv/bin/python -m pytest -ra -q -p no:cacheprovider --timeout=900 --continue-on-collection-errors",
            "source_commits": [],
            "add_only": True,
        },
        "engines": [
            {
                "name": "pbt",
                "path": "pbt/",
                "serves_properties": [c["property_id"] for c in checks],
                "kind_free_text": "Hypothesis 6.168 property-based search (plain @given, RuleBasedStateMachine for histories, "
                "exhaustive enumeration of small finite domains) against explicit oracles; JSON replay files",
            }
        ],
        "checks": checks,
        "notes": "VERIF_SEED seeds every generator; exit 2 = harness error/inconclusive, never a violation. "
        "Genuine defects repaired in /repo are listed in KNOWN_FINDINGS.txt as 'fixed:' lines.",
        "not_applicable": na,
    }
    out = VERIF / "MANIFEST.json"
    out.write_text(json.dumps(manifest, indent=1) + "\n")
    import jsonschema

    schema = json.loads(Path("/root/.vp/MANIFEST.schema.json").read_text())
    jsonschema.validate(manifest, schema)
    print(f"MANIFEST.json: {len(checks)} checks, {len(na)} not_applicable; valid")


if __name__ == "__main__":
    main()
