#!/venv/bin/python
"""Regenerate seeded/TABLE.md from the meta files and embed it in DESIGN.md between the SEED TABLE markers."""
import re
import subprocess
import sys
from pathlib import Path

V = Path(__file__).resolve().parent.parent
subprocess.run([sys.executable, str(V / "tools" / "seed.py"), "table-md"], check=True, capture_output=True)
table = (V / "seeded" / "TABLE.md").read_text().rstrip("\n")
d = (V / "DESIGN.md").read_text()
a = d.index("<!-- BEGIN SEED TABLE")
a = d.index("\n", a) + 1
b = d.index("<!-- END SEED TABLE -->")
(V / "DESIGN.md").write_text(d[:a] + table + "\n" + d[b:])
print("rows:", table.count("\n") - 1)
