#!/opt/veriftools/pyvenv/bin/python
"""Validate evidence/*.json against the evidence schema (run with python3-vt)."""
import json, sys
from pathlib import Path
import jsonschema
V = Path(__file__).resolve().parent.parent
schema = json.loads(Path("/root/.vp/EVIDENCE.schema.json").read_text())
bad = 0
for p in sorted((V / "evidence").glob("*.json")):
    try:
        jsonschema.validate(json.loads(p.read_text()), schema)
        print("ok ", p.name)
    except Exception as e:
        bad += 1
        print("BAD", p.name, str(e)[:300])
sys.exit(1 if bad else 0)
