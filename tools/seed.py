#!/venv/bin/python
"""Seeded-change bookkeeping.

  tools/seed.py ingest <agent_dir> <name> <property>      copy seed_out/{patch.diff,demo.py,notes.md} to seeded/<name>/
  tools/seed.py verify <name> [--checks C02,C06] [--tier quick] [--no-tests]
        fresh scratch worktree of /repo HEAD under /tmp: demo passes; apply patch; demo fails; repo test
        suite passes; then run the listed checks (default: the seed's property) against the patched
        worktree (BLDFM_VERIF_REPO).  Results are written to seeded/<name>/meta.json.  The worktree is removed.
  tools/seed.py table                                     print the seeds x checks table from the meta files
"""

import json
import os
import shutil
import subprocess
import sys
import time
from pathlib import Path

VERIF = Path(__file__).resolve().parent.parent
SEEDED = VERIF / "seeded"
PY = "/venv/bin/python"


def sh(cmd, **kw):
    return subprocess.run(cmd, capture_output=True, text=True, **kw)


def ingest(src, name, prop):
    src = Path(src)
    out = src / "seed_out"
    dst = SEEDED / name
    dst.mkdir(parents=True, exist_ok=True)
    for f in ("patch.diff", "demo.py", "notes.md"):
        if (out / f).exists():
            shutil.copy(out / f, dst / f)
    # make the demo location-independent: it is always run with PYTHONPATH=<tree>/src
    meta = {"property": prop, "name": name, "origin": f"independent sub-agent given only the text of {prop} and a scratch worktree"}
    (dst / "meta.json").write_text(json.dumps(meta, indent=1) + "\n")
    print("ingested", dst)


def run_demo(wt, demo):
    env = dict(os.environ, PYTHONPATH=str(wt / "src"), NUMBA_CACHE_DIR=str(wt / ".numba"))
    r = sh([PY, str(demo)], cwd=wt / "seed_out_run", env=env)
    return r.returncode, (r.stdout + r.stderr)[-600:]


def verify(name, checks=None, tier="quick", tests=True):
    d = SEEDED / name
    meta = json.loads((d / "meta.json").read_text())
    prop = meta["property"]
    checks = checks or [prop]
    wt = Path(f"/tmp/seedwt-{name}")
    if wt.exists():
        sh(["git", "-C", "/repo", "worktree", "remove", "--force", str(wt)])
    r = sh(["git", "-C", "/repo", "worktree", "add", "--detach", str(wt), "HEAD"])
    assert r.returncode == 0, r.stderr
    try:
        (wt / "seed_out_run").mkdir()
        demo = wt / "seed_out_run" / "demo.py"
        text = (d / "demo.py").read_text()
        demo.write_text(text)
        rc0, out0 = run_demo(wt, demo)
        r = sh(["git", "-C", str(wt), "apply", "--3way", str(d / "patch.diff")])
        if r.returncode != 0:
            r = sh(["patch", "-p1", "-i", str(d / "patch.diff")], cwd=wt)
        applied = r.returncode == 0
        rc1, out1 = run_demo(wt, demo) if applied else (None, r.stdout + r.stderr)
        prev_tests = meta.get("verified", {}).get("repo_tests")
        meta["verified"] = {
            "repo_head": sh(["git", "-C", "/repo", "rev-parse", "--short", "HEAD"]).stdout.strip(),
            "demo_exit_unmodified": rc0,
            "patch_applies": applied,
            "demo_exit_patched": rc1,
            "demo_tail_patched": out1[-300:],
        }
        if prev_tests and not tests:
            meta["verified"]["repo_tests"] = prev_tests
        print(f"{name}: demo unmodified exit {rc0}; patch applies {applied}; demo patched exit {rc1}")
        if rc0 != 0:
            print(out0)
        if applied and tests:
            t0 = time.time()
            r = sh([PY, "-m", "pytest", "-q", "-p", "no:cacheprovider", "-n", "8", "--timeout=900"], cwd=wt,
                   env=dict(os.environ, PYTHONPATH=str(wt / "src"), NUMBA_CACHE_DIR=str(wt / ".numba")))
            tail = [l for l in r.stdout.splitlines() if " passed" in l or " failed" in l][-1:]
            meta["verified"]["repo_tests"] = {"exit": r.returncode, "summary": tail, "wall_s": round(time.time() - t0)}
            print(f"{name}: repo tests on patched tree: exit {r.returncode} {tail}")
        results = meta.setdefault("checks", {})
        if applied:
            for pid in checks:
                t0 = time.time()
                r = sh([str(VERIF / "check"), pid, tier], cwd=VERIF, env=dict(os.environ, BLDFM_VERIF_REPO=str(wt)))
                lines = r.stdout.strip().splitlines()
                disc = [l.strip() for l in lines if "discrepancy" in l][:2]
                head = [l for l in lines if l.startswith(pid + " ")][:1]
                verdict = {1: "caught", 0: "missed", 2: "harness-error"}.get(r.returncode, str(r.returncode))
                results[f"{pid}:{tier}"] = {"verdict": verdict, "summary": head, "discrepancies": disc,
                                            "wall_s": round(time.time() - t0, 1)}
                print(f"{name}: {pid} {tier}: {verdict}", *head)
                for x in disc:
                    print("     ", x[:240])
                if r.returncode == 2:
                    print(r.stdout[-1500:], r.stderr[-800:])
        (d / "meta.json").write_text(json.dumps(meta, indent=1) + "\n")
    finally:
        sh(["git", "-C", "/repo", "worktree", "remove", "--force", str(wt)])
        shutil.rmtree(wt, ignore_errors=True)


def table():
    for d in sorted(SEEDED.iterdir()):
        m = d / "meta.json"
        if not m.exists():
            continue
        meta = json.loads(m.read_text())
        v = meta.get("verified", {})
        ok = v.get("demo_exit_unmodified") == 0 and v.get("demo_exit_patched") not in (0, None) and v.get("repo_tests", {}).get("exit") == 0
        res = " ".join(f"{k}={r['verdict']}" for k, r in sorted(meta.get("checks", {}).items()))
        print(f"{d.name:28s} {meta['property']} valid={ok} {res}")


if __name__ == "__main__":
    a = sys.argv[1:]
    if a[0] == "ingest":
        ingest(a[1], a[2], a[3])
    elif a[0] == "verify":
        name = a[1]
        checks, tier, tests = None, "quick", True
        rest = a[2:]
        while rest:
            x = rest.pop(0)
            if x == "--checks":
                checks = rest.pop(0).split(",")
            elif x == "--tier":
                tier = rest.pop(0)
            elif x == "--no-tests":
                tests = False
        verify(name, checks, tier, tests)
    elif a[0] == "verify-all":
        # re-run, for every seed, the checks recorded in its meta file (no repo tests)
        for d in sorted(SEEDED.iterdir()):
            if (d / "meta.json").exists():
                meta = json.loads((d / "meta.json").read_text())
                ids = sorted({k.split(":")[0] for k in meta.get("checks", {})}) or [meta["property"]]
                verify(d.name, ids, "quick", False)
    elif a[0] == "verify-all-par":
        # the same, N seeds at a time (each in its own worktree and its own process); output per seed in out/verify-all/<name>.log
        from concurrent.futures import ThreadPoolExecutor

        jobs = int(a[1]) if len(a) > 1 else 6
        only = a[2] if len(a) > 2 else ""  # optional substring filter
        logdir = VERIF / "out" / "verify-all"
        logdir.mkdir(parents=True, exist_ok=True)
        work = []
        for d in sorted(SEEDED.iterdir()):
            if (d / "meta.json").exists() and only in d.name:
                meta = json.loads((d / "meta.json").read_text())
                ids = sorted({k.split(":")[0] for k in meta.get("checks", {})}) or [meta["property"]]
                work.append((d.name, ids))

        def one(w):
            name, ids = w
            r = sh([PY, str(Path(__file__).resolve()), "verify", name, "--checks", ",".join(ids), "--no-tests"])
            (logdir / f"{name}.log").write_text(r.stdout + r.stderr)
            lines = [l for l in r.stdout.splitlines() if " quick: " in l]
            return name, lines

        with ThreadPoolExecutor(max_workers=jobs) as ex:
            for name, lines in ex.map(one, work):
                for l in lines:
                    print(l[:200], flush=True)
    elif a[0] == "table-md":
        rows = ["| seeded change | property | valid (demo passes unmodified, fails patched, repo suite passes patched) | caught by | not caught by (secondary checks) |", "|---|---|---|---|---|"]
        for d in sorted(SEEDED.iterdir()):
            m = d / "meta.json"
            if not m.exists():
                continue
            meta = json.loads(m.read_text())
            v = meta.get("verified", {})
            ok = v.get("demo_exit_unmodified") == 0 and v.get("demo_exit_patched") not in (0, None) and v.get("repo_tests", {}).get("exit") == 0
            ch = meta.get("checks", {})
            caught = sorted(k.split(":")[0] for k, r in ch.items() if r["verdict"] == "caught")
            missed = sorted(k.split(":")[0] for k, r in ch.items() if r["verdict"] != "caught")
            rows.append(f"| {d.name} | {meta['property']} | {'yes' if ok else 'NO'} | {', '.join(caught) or '-'} | {', '.join(missed) or '-'} |")
        (SEEDED / "TABLE.md").write_text("\n".join(rows) + "\n")
        print("\n".join(rows))
    elif a[0] == "table":
        table()
